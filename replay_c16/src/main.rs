//! Native replay of an E2 (MIR->SMT) counterexample for C16.
//! usage: replay_c16 <allocate|make_reference> <T> <K> <next_id> <next_serial> <creation|counter> <tid,tid,...>
//! The tid list is the order of *visible steps that have a yield point* (lock, atomic ops).
//! exit 101 = two results collide / stale creation (violation reproduced); 0 = no violation.
use std::sync::{Arc, Condvar, Mutex};

thread_local! { static TID: std::cell::Cell<usize> = std::cell::Cell::new(usize::MAX); }

struct Sched {
    order: Vec<usize>,
    pos: Mutex<usize>,
    cv: Condvar,
}

/// `wrapper <Date|Time|NaiveDateTime|DateTime> key=value ...`: builds the Elixir struct map with those integer
/// fields (microsecond_0/_1 form the {value, precision} tuple), calls the wrapper's from_term and exits 101
/// when it returns a value whose fields differ from the term's (an out-of-range field was fabricated).
fn wrapper(a: &[String]) -> ! {
    use erltf::{Atom, OwnedTerm};
    use std::collections::BTreeMap;
    let ty = a[2].as_str();
    let mut kv: BTreeMap<String, i64> = BTreeMap::new();
    for s in &a[3..] {
        if let Some((k, v)) = s.split_once('=') {
            kv.insert(k.to_string(), v.parse().unwrap());
        }
    }
    let mut m = BTreeMap::new();
    m.insert(OwnedTerm::Atom(Atom::new("__struct__")), OwnedTerm::Atom(Atom::new(format!("Elixir.{}", ty))));
    m.insert(OwnedTerm::Atom(Atom::new("calendar")), OwnedTerm::Atom(Atom::new("Elixir.Calendar.ISO")));
    for (k, v) in &kv {
        if k.starts_with("microsecond_") {
            continue;
        }
        m.insert(OwnedTerm::Atom(Atom::new(k)), OwnedTerm::Integer(*v));
    }
    if let (Some(v), Some(p)) = (kv.get("microsecond_0"), kv.get("microsecond_1")) {
        m.insert(OwnedTerm::Atom(Atom::new("microsecond")), OwnedTerm::Tuple(vec![OwnedTerm::Integer(*v), OwnedTerm::Integer(*p)]));
    }
    if ty == "DateTime" {
        m.insert(OwnedTerm::Atom(Atom::new("time_zone")), OwnedTerm::Binary(b"Etc/UTC".to_vec()));
        m.insert(OwnedTerm::Atom(Atom::new("zone_abbr")), OwnedTerm::Binary(b"UTC".to_vec()));
    }
    let t = OwnedTerm::Map(m);
    let g = |k: &str| kv.get(k).copied();
    let mut got: Vec<(&str, i64)> = Vec::new();
    let some = match ty {
        "Date" => edp_elixir_terms::ElixirDate::from_term(&t).map(|d| { got = vec![("year", d.year as i64), ("month", d.month as i64), ("day", d.day as i64)]; }).is_some(),
        "Time" => edp_elixir_terms::ElixirTime::from_term(&t).map(|d| { got = vec![("hour", d.hour as i64), ("minute", d.minute as i64), ("second", d.second as i64),
            ("microsecond_0", d.microsecond_value as i64), ("microsecond_1", d.microsecond_precision as i64)]; }).is_some(),
        "NaiveDateTime" => edp_elixir_terms::ElixirNaiveDateTime::from_term(&t).map(|d| { got = vec![("year", d.year as i64), ("month", d.month as i64), ("day", d.day as i64),
            ("hour", d.hour as i64), ("minute", d.minute as i64), ("second", d.second as i64), ("microsecond_0", d.microsecond_value as i64), ("microsecond_1", d.microsecond_precision as i64)]; }).is_some(),
        "DateTime" => edp_elixir_terms::ElixirDateTime::from_term(&t).map(|d| { got = vec![("year", d.year as i64), ("month", d.month as i64), ("day", d.day as i64),
            ("hour", d.hour as i64), ("minute", d.minute as i64), ("second", d.second as i64), ("microsecond_0", d.microsecond_value as i64), ("microsecond_1", d.microsecond_precision as i64),
            ("utc_offset", d.utc_offset as i64), ("std_offset", d.std_offset as i64)]; }).is_some(),
        _ => { eprintln!("unknown wrapper"); std::process::exit(64) }
    };
    if !some {
        println!("REPLAY: from_term returned None (term rejected)");
        std::process::exit(0);
    }
    for (k, v) in &got {
        if let Some(want) = g(k) {
            if want != *v {
                eprintln!("REPLAY: field {} of the term is {} but from_term fabricated {}", k, want, v);
                std::process::exit(101);
            }
        }
    }
    println!("REPLAY: from_term returned the term's own field values");
    std::process::exit(0)
}

/// `ctl <head> <len> <e1> <expect>`: from_term on `{head, e1, 2, 3, ..}` (len elements); expect is `ERR`, `GENERIC` or
/// `Variant:field1,field2,..` (the protocol's field order; a field named `id` is the u64 id).  Exit 101 on mismatch.
fn ctl(a: &[String]) -> ! {
    use edp_client::control::ControlMessage;
    use erltf::OwnedTerm;
    let head: i64 = a[2].parse().unwrap();
    let len: usize = a[3].parse().unwrap();
    let e1: i64 = a[4].parse().unwrap();
    let expect = a[5].as_str();
    let mut v = Vec::new();
    for i in 0..len {
        v.push(OwnedTerm::Integer(if i == 0 { head } else if i == 1 { e1 } else { i as i64 }));
    }
    let t = OwnedTerm::Tuple(v);
    let r = ControlMessage::from_term(&t);
    let shown = format!("{:?}", r);
    let ok = match (&r, expect) {
        (Err(_), "ERR") => true,
        (Ok(m), "GENERIC") => {
            let mut fields = String::new();
            for i in 1..len {
                if i > 1 {
                    fields.push_str(", ");
                }
                fields.push_str(&format!("Integer({})", if i == 1 { e1 } else { i as i64 }));
            }
            format!("{:?}", m) == format!("Generic {{ message_type: {}, fields: [{}] }}", head, fields)
        }
        (Ok(m), e) if e.contains(':') => {
            let (name, fl) = e.split_once(':').unwrap();
            let d = format!("{:?}", m);
            let fields: Vec<&str> = if fl.is_empty() { vec![] } else { fl.split(',').collect() };
            let mut good = d == name || d.starts_with(&format!("{} {{", name));
            for (k, f) in fields.iter().enumerate() {
                let val = if k == 0 { e1 } else { (k + 1) as i64 };
                let want = if *f == "id" { format!("id: {}", val) } else { format!("{}: Integer({})", f, val) };
                if !d.contains(&want) {
                    good = false;
                }
            }
            // no field beyond the protocol's
            good && d.matches(": ").count() == fields.len()
        }
        _ => false,
    };
    if !ok {
        eprintln!("REPLAY: from_term gave {} but the protocol table expects {}", shown, expect);
        std::process::exit(101);
    }
    println!("REPLAY: from_term gave {} as expected", shown);
    std::process::exit(0)
}

/// `conv <to_owned|from_owned> <Pid|Port|Reference>`: a node-local identifier, decoded from the wire, must be re-emitted byte for byte
/// after the owned -> zero-copy -> owned conversion (exit 101 = it is not).
fn conv(a: &[String]) -> ! {
    let mut bytes: Vec<u8> = vec![131, 121, 0xde, 0xad, 0xbe, 0xef, 1, 2, 3, 4];
    let node: [u8; 4] = [119, 1, b'n', 0];
    match a[3].as_str() {
        "Pid" => {
            bytes.push(88);
            bytes.extend_from_slice(&node[..3]);
            bytes.extend_from_slice(&[0, 0, 0, 7, 0, 0, 0, 9, 0, 0, 0, 3]);
        }
        "Port" => {
            bytes.push(120);
            bytes.extend_from_slice(&node[..3]);
            bytes.extend_from_slice(&[0, 0, 0, 0, 0, 0, 0, 7, 0, 0, 0, 3]);
        }
        _ => {
            bytes.push(90);
            bytes.extend_from_slice(&[0, 1]);
            bytes.extend_from_slice(&node[..3]);
            bytes.extend_from_slice(&[0, 0, 0, 3, 0, 0, 0, 7]);
        }
    }
    let t = erltf::decode(&bytes).expect("decodes");
    let b = erltf::BorrowedTerm::from(&t);
    let o = b.to_owned();
    let out = erltf::encode(&o).expect("encodes");
    if out != bytes {
        eprintln!("REPLAY: {} {} re-emitted {:?} instead of {:?}", a[2], a[3], out, bytes);
        std::process::exit(101);
    }
    println!("REPLAY: {} {} re-emitted byte for byte", a[2], a[3]);
    std::process::exit(0)
}

/// `frag S:<seq>:<count>:<cache token hex16>:<payload token hex16> | A:<seq>:<fragment id>:<payload token hex16> ...`
/// runs the calls on a real FragmentAssembler; each payload is the 8 bytes of its token; prints every result and pending_count
fn frag(a: &[String]) -> ! {
    use edp_client::fragmentation::FragmentAssembler;
    let tok = |h: &str| u64::from_str_radix(h, 16).unwrap().to_be_bytes().to_vec();
    let mut asm = FragmentAssembler::new();
    for (i, c) in a[2..].iter().enumerate() {
        let p: Vec<&str> = c.split(':').collect();
        let seq: u64 = p[1].parse().unwrap();
        let fid: u64 = p[2].parse().unwrap();
        let r = if p[0] == "S" { asm.start_fragment(seq, fid, if p[3] == "-" { None } else { Some(tok(p[3])) }, tok(p[4])) } else { asm.add_fragment(seq, fid, tok(p[3])) };
        match r {
            None => println!("call {}: None", i),
            Some(v) => println!("call {}: {}", i, v.iter().map(|b| format!("{:02x}", b)).collect::<String>()),
        }
    }
    println!("pending_count: {}", asm.pending_count());
    std::process::exit(0)
}

/// `fragexp`: a just-updated sequence must survive cleanup_expired under a long timeout; one that has aged past a short timeout must go
fn fragexp() -> ! {
    use edp_client::fragmentation::FragmentAssembler;
    use std::time::Duration;
    let mut a = FragmentAssembler::with_timeout(Duration::from_secs(30));
    a.add_fragment(1u64, 1, vec![1]);
    let dropped = a.cleanup_expired();
    if dropped != 0 || a.pending_count() != 1 {
        eprintln!("REPLAY: fresh sequence dropped by cleanup_expired (returned {}, pending {})", dropped, a.pending_count());
        std::process::exit(101);
    }
    let mut b = FragmentAssembler::with_timeout(Duration::from_millis(300));
    b.add_fragment(1u64, 1, vec![1]);
    std::thread::sleep(Duration::from_millis(900));
    b.add_fragment(2u64, 1, vec![2]);
    let dropped = b.cleanup_expired();
    if dropped != 1 || b.pending_count() != 1 {
        eprintln!("REPLAY: cleanup_expired returned {} with {} pending; expected the old sequence dropped and the fresh one kept", dropped, b.pending_count());
        std::process::exit(101);
    }
    // a sequence that keeps receiving fragments is not expired: age counts from the last fragment
    let mut c = FragmentAssembler::with_timeout(Duration::from_millis(2000));
    c.start_fragment(7u64, 3, None, vec![3]);
    std::thread::sleep(Duration::from_millis(1200));
    c.add_fragment(7u64, 2, vec![2]);
    std::thread::sleep(Duration::from_millis(1200));
    let dropped = c.cleanup_expired();
    if dropped != 0 || c.pending_count() != 1 {
        eprintln!("REPLAY: a sequence refreshed 1.2 s ago was dropped under a 2 s timeout (returned {}, pending {})", dropped, c.pending_count());
        std::process::exit(101);
    }
    println!("REPLAY: expiry behaves");
    std::process::exit(0)
}

/// `props <p2m|m2p2m> CLS:key:value ...`: the proplist/map helpers on a concrete list / map, compared with an independent
/// association-list reference (exit 101 = an entry is lost, altered or invented)
fn props(a: &[String]) -> ! {
    use erltf::OwnedTerm as T;
    let true_tok: u64 = 0x5ffe533b830f08a0; // first 8 bytes of sha1("true"), the token the model uses for the atom 'true'
    let atom = |k: u64| if k == true_tok { T::atom("true") } else { T::atom(format!("k{}", k).as_str()) };
    let mut list: Vec<T> = vec![];
    let mut keyed: Vec<(T, T)> = vec![];
    for e in &a[3..] {
        let p: Vec<&str> = e.split(':').collect();
        let k: u64 = p[1].parse().unwrap();
        let v = T::Integer(p[2].parse::<u64>().unwrap() as i64);
        let key = match p[0] {
            "TA" | "A" | "T3" => atom(k),
            "TI" | "I" => T::Integer(k as i64),
            "TB" => T::Binary(k.to_be_bytes()[5..].to_vec()),
            _ => T::Tuple(vec![T::Integer(k as i64)]),
        };
        match p[0] {
            "A" => {
                list.push(key.clone());
                keyed.push((key, T::atom("true")));
            }
            "I" => list.push(key),
            "T3" => list.push(T::Tuple(vec![key, v.clone(), v])),
            _ => {
                list.push(T::Tuple(vec![key.clone(), v.clone()]));
                keyed.push((key, v));
            }
        }
    }
    // reference: last value per key, by ==
    let mut want: Vec<(T, T)> = vec![];
    for (k, v) in keyed {
        if let Some(e) = want.iter_mut().find(|(k2, _)| *k2 == k) {
            e.1 = v;
        } else {
            want.push((k, v));
        }
    }
    let got = if a[2] == "p2m" {
        T::List(list).proplist_to_map()
    } else {
        let m: std::collections::BTreeMap<T, T> = want.iter().cloned().collect();
        match T::Map(m).map_to_proplist() {
            Ok(pl) => pl.proplist_to_map(),
            Err(e) => Err(e),
        }
    };
    let ok = match &got {
        Ok(T::Map(m)) => m.len() == want.len() && want.iter().all(|(k, v)| m.get(k) == Some(v)),
        _ => false,
    };
    if !ok {
        eprintln!("REPLAY: helpers gave {:?}, the reference association list is {:?}", got, want);
        std::process::exit(101);
    }
    println!("REPLAY: helpers agree with the reference");
    std::process::exit(0)
}

/// `disthdr <token>:<byte length> ...`: the atoms are encoded as terms with a distribution header by the real encoder; an independent
/// reader of the documented DIST_HEADER layout must read every atom back (exit 101 = it cannot, or reads a different atom)
fn disthdr(a: &[String]) -> ! {
    let names: Vec<String> = a[2..]
        .iter()
        .map(|s| {
            let p: Vec<&str> = s.split(':').collect();
            let tok: u64 = p[0].parse().unwrap();
            let n: usize = p[1].parse().unwrap();
            let mut t = format!("{:016x}", tok);
            while t.len() < n {
                t.push('a');
            }
            t.truncate(n);
            t
        })
        .collect();
    let terms: Vec<erltf::OwnedTerm> = names.iter().map(|n| erltf::OwnedTerm::atom(n.as_str())).collect();
    let tuple = erltf::OwnedTerm::Tuple(terms.clone());
    let wrap = a[1] == "disthdr_tuple";
    let refs: Vec<&erltf::OwnedTerm> = if wrap { vec![&tuple] } else { terms.iter().collect() };
    let bytes = match erltf::encode_with_dist_header_multi(&refs) {
        Ok(b) => b,
        Err(e) => {
            eprintln!("REPLAY: encoder error {:?}", e);
            std::process::exit(101);
        }
    };
    let fail = |why: &str| -> ! {
        eprintln!("REPLAY: independent DIST_HEADER reader: {} (first bytes {:02x?})", why, &bytes[..bytes.len().min(24)]);
        std::process::exit(101);
    };
    if bytes.len() < 3 || bytes[0] != 131 || bytes[1] != 68 {
        fail("no 131,68 header");
    }
    let n = bytes[2] as usize;
    let fl = n / 2 + 1;
    let flags = &bytes[3..3 + fl];
    let nib = |j: usize| if j % 2 == 0 { flags[j / 2] & 0x0f } else { flags[j / 2] >> 4 };
    let long = nib(n) & 1 == 1;
    let mut pos = 3 + fl;
    let mut table: std::collections::HashMap<usize, Vec<u8>> = std::collections::HashMap::new();
    for i in 0..n {
        let f = nib(i);
        let internal = bytes[pos] as usize;
        pos += 1;
        let cache_index = (((f & 7) as usize) << 8) | internal;
        if f & 8 != 0 {
            let len = if long {
                let l = ((bytes[pos] as usize) << 8) | bytes[pos + 1] as usize;
                pos += 2;
                l
            } else {
                let l = bytes[pos] as usize;
                pos += 1;
                l
            };
            if pos + len > bytes.len() {
                fail("atom text runs past the end of the message");
            }
            table.insert(i, bytes[pos..pos + len].to_vec());
            pos += len;
            let _ = cache_index;
        } else {
            fail("reference without the new-entry flag and no prior cache");
        }
    }
    if wrap {
        if pos + 2 > bytes.len() || bytes[pos] != 104 || bytes[pos + 1] as usize != names.len() {
            fail("SMALL_TUPLE_EXT with the right arity expected");
        }
        pos += 2;
    }
    for name in &names {
        if pos + 2 > bytes.len() || bytes[pos] != 82 {
            fail("term is not an ATOM_CACHE_REF where expected");
        }
        let idx = bytes[pos + 1] as usize;
        pos += 2;
        match table.get(&idx) {
            Some(t) if t.as_slice() == name.as_bytes() => {}
            _ => fail("a term resolves to a different atom than the one encoded"),
        }
    }
    if pos != bytes.len() {
        fail("trailing bytes");
    }
    println!("REPLAY: independent reader read all {} atoms back", names.len());
    std::process::exit(0)
}

// largest single allocation request seen since the last reset (capsite mode)
struct Counting;
static MAX_REQ: std::sync::atomic::AtomicUsize = std::sync::atomic::AtomicUsize::new(0);
unsafe impl std::alloc::GlobalAlloc for Counting {
    unsafe fn alloc(&self, l: std::alloc::Layout) -> *mut u8 {
        MAX_REQ.fetch_max(l.size(), std::sync::atomic::Ordering::Relaxed);
        if l.size() > (1usize << 33) {
            return std::ptr::null_mut();
        }
        unsafe { std::alloc::System.alloc(l) }
    }
    unsafe fn dealloc(&self, p: *mut u8, l: std::alloc::Layout) {
        unsafe { std::alloc::System.dealloc(p, l) }
    }
    unsafe fn realloc(&self, p: *mut u8, l: std::alloc::Layout, n: usize) -> *mut u8 {
        MAX_REQ.fetch_max(n, std::sync::atomic::Ordering::Relaxed);
        unsafe { std::alloc::System.realloc(p, l, n) }
    }
}
#[global_allocator]
static GLOBAL: Counting = Counting;

/// `capsite <parser> <wire fields...>`: a short input whose length fields carry the model's values is decoded; a single allocation
/// request above 8 MiB for an input of a few dozen bytes is the violation (exit 101)
fn capsite(a: &[String]) -> ! {
    let w: Vec<u64> = a[3..].iter().map(|x| x.parse().unwrap()).collect();
    let g = |i: usize| w.get(i).copied().unwrap_or(0);
    let mut b: Vec<u8> = vec![131];
    let atom = [119u8, 1, b'm'];
    match a[2].as_str() {
        "parse_list" => {
            b.push(108);
            b.extend_from_slice(&(g(0) as u32).to_be_bytes());
            b.extend_from_slice(&[97, 1, 106]);
        }
        "parse_large_tuple" => {
            b.push(105);
            b.extend_from_slice(&(g(0) as u32).to_be_bytes());
            b.extend_from_slice(&[97, 1]);
        }
        "parse_small_tuple" => {
            b.push(104);
            b.push(g(0) as u8);
            b.extend_from_slice(&[97, 1]);
        }
        "parse_new_fun_ext" => {
            b.push(112);
            b.extend_from_slice(&(g(0) as u32).to_be_bytes());
            b.push(g(1) as u8);
            b.extend_from_slice(&[0u8; 16]);
            b.extend_from_slice(&(g(2) as u32).to_be_bytes());
            b.extend_from_slice(&(g(3) as u32).to_be_bytes());
            b.extend_from_slice(&atom);
            b.extend_from_slice(&[97, 0, 97, 0, 88]);
            b.extend_from_slice(&atom);
            b.extend_from_slice(&[0, 0, 0, 1, 0, 0, 0, 2, 0, 0, 0, 3]);
        }
        "parse_newer_reference" => {
            b.push(90);
            b.extend_from_slice(&(g(0) as u16).to_be_bytes());
            b.extend_from_slice(&atom);
            b.extend_from_slice(&[0, 0, 0, 3, 0, 0, 0, 7]);
        }
        "parse_new_reference_ext" => {
            b.push(114);
            b.extend_from_slice(&(g(0) as u16).to_be_bytes());
            b.extend_from_slice(&atom);
            b.extend_from_slice(&[3, 0, 0, 0, 7]);
        }
        _ => {
            b.push(80);
            b.extend_from_slice(&(g(0) as u32).to_be_bytes());
            b.extend_from_slice(&[0x78, 0x9c, 1, 2, 3]);
        }
    }
    MAX_REQ.store(0, std::sync::atomic::Ordering::SeqCst);
    let r = std::panic::catch_unwind(|| erltf::decode(&b).is_ok());
    let m = MAX_REQ.load(std::sync::atomic::Ordering::SeqCst);
    if r.is_err() || m > (8 << 20) {
        eprintln!("REPLAY: decoding {} bytes ({}) {} and requested a single allocation of {} bytes", b.len(), a[2], if r.is_err() { "panicked" } else { "returned" }, m);
        std::process::exit(101);
    }
    println!("REPLAY: {} on {} bytes: largest single allocation request {} bytes", a[2], b.len(), m);
    std::process::exit(0)
}

fn md5(msg: &[u8]) -> [u8; 16] {
    let s: [u32; 64] = [7, 12, 17, 22, 7, 12, 17, 22, 7, 12, 17, 22, 7, 12, 17, 22, 5, 9, 14, 20, 5, 9, 14, 20, 5, 9, 14, 20, 5, 9, 14, 20, 4, 11, 16, 23, 4, 11, 16, 23,
        4, 11, 16, 23, 4, 11, 16, 23, 6, 10, 15, 21, 6, 10, 15, 21, 6, 10, 15, 21, 6, 10, 15, 21];
    let k: Vec<u32> = (0..64).map(|i| ((i as f64 + 1.0).sin().abs() * 4294967296.0) as u32).collect();
    let (mut a0, mut b0, mut c0, mut d0) = (0x67452301u32, 0xefcdab89u32, 0x98badcfeu32, 0x10325476u32);
    let mut m = msg.to_vec();
    m.push(0x80);
    while m.len() % 64 != 56 {
        m.push(0);
    }
    m.extend_from_slice(&((msg.len() as u64) * 8).to_le_bytes());
    for chunk in m.chunks(64) {
        let w: Vec<u32> = (0..16).map(|i| u32::from_le_bytes([chunk[4 * i], chunk[4 * i + 1], chunk[4 * i + 2], chunk[4 * i + 3]])).collect();
        let (mut a, mut b, mut c, mut d) = (a0, b0, c0, d0);
        for i in 0..64 {
            let (mut f, g);
            if i < 16 {
                f = (b & c) | (!b & d);
                g = i;
            } else if i < 32 {
                f = (d & b) | (!d & c);
                g = (5 * i + 1) % 16;
            } else if i < 48 {
                f = b ^ c ^ d;
                g = (3 * i + 5) % 16;
            } else {
                f = c ^ (b | !d);
                g = (7 * i) % 16;
            }
            f = f.wrapping_add(a).wrapping_add(k[i]).wrapping_add(w[g]);
            a = d;
            d = c;
            c = b;
            b = b.wrapping_add(f.rotate_left(s[i]));
        }
        a0 = a0.wrapping_add(a);
        b0 = b0.wrapping_add(b);
        c0 = c0.wrapping_add(c);
        d0 = d0.wrapping_add(d);
    }
    let mut out = [0u8; 16];
    out[0..4].copy_from_slice(&a0.to_le_bytes());
    out[4..8].copy_from_slice(&b0.to_le_bytes());
    out[8..12].copy_from_slice(&c0.to_le_bytes());
    out[12..16].copy_from_slice(&d0.to_le_bytes());
    out
}

/// `digest <challenge>`: edp_client::digest::compute_digest against an independent MD5 of cookie ++ decimal(challenge)
fn digest(a: &[String]) -> ! {
    let ch: u32 = a[2].parse().unwrap();
    let cookie = "secret-cookie";
    let got = edp_client::digest::compute_digest(ch, cookie);
    let want = md5(format!("{}{}", cookie, ch).as_bytes());
    if got != want {
        eprintln!("REPLAY: compute_digest({}, cookie) = {:02x?}, MD5(cookie ++ \"{}\") = {:02x?}", ch, got, ch, want);
        std::process::exit(101);
    }
    println!("REPLAY: compute_digest({}) agrees with an independent MD5", ch);
    std::process::exit(0)
}

/// `cmpseq <tuple|list> <a1,a2,..|-> <b1,b2,..|->`: OwnedTerm::cmp (and BorrowedTerm::cmp) on two containers of integers against
/// Erlang's order written out directly (tuples: size first; lists: element-wise, then length)
fn cmpseq(a: &[String]) -> ! {
    use erltf::OwnedTerm as T;
    use std::cmp::Ordering;
    let ints = |s: &str| -> Vec<i64> { if s == "-" { vec![] } else { s.split(',').map(|x| x.parse().unwrap()).collect() } };
    let (xs, ys) = (ints(&a[3]), ints(&a[4]));
    let mk = |v: &Vec<i64>| {
        let e: Vec<T> = v.iter().map(|i| T::Integer(*i)).collect();
        if a[2] == "tuple" { T::Tuple(e) } else { T::List(e) }
    };
    let lex = xs.iter().zip(ys.iter()).map(|(p, q)| p.cmp(q)).find(|o| *o != Ordering::Equal);
    let want = if a[2] == "tuple" && xs.len() != ys.len() { xs.len().cmp(&ys.len()) } else { lex.unwrap_or(xs.len().cmp(&ys.len())) };
    let (ta, tb) = (mk(&xs), mk(&ys));
    let got = ta.cmp(&tb);
    let gotb = erltf::BorrowedTerm::from(&ta).cmp(&erltf::BorrowedTerm::from(&tb));
    if got != want || gotb != want {
        eprintln!("REPLAY: {}{:?} vs {}{:?}: OwnedTerm::cmp = {:?}, BorrowedTerm::cmp = {:?}, Erlang order = {:?}", a[2], xs, a[2], ys, got, gotb, want);
        std::process::exit(101);
    }
    println!("REPLAY: cmp agrees with Erlang's order ({:?})", want);
    std::process::exit(0)
}

/// `leaf <owned|borrowed> <tag> <input length after the tag> <wire fields...>`: the tag's parser on an input of exactly that length whose
/// leading fields carry the model's values (rest zero); a panic is the violation (exit 101)
fn leaf(a: &[String]) -> ! {
    let tag: u8 = a[3].parse().unwrap();
    let in_len: usize = a[4].parse::<u64>().unwrap().min(4096) as usize;
    let w: Vec<u64> = a[5..].iter().map(|x| x.parse().unwrap()).collect();
    let widths: &[usize] = match tag {
        109 | 111 => &[4, 1],
        77 => &[4, 1],
        107 | 118 | 100 => &[2],
        110 => &[1, 1],
        98 => &[4],
        70 => &[8],
        _ => &[1],
    };
    let mut body: Vec<u8> = vec![];
    for (i, wd) in widths.iter().enumerate() {
        let v = w.get(i).copied().unwrap_or(0);
        body.extend_from_slice(&v.to_be_bytes()[8 - wd..]);
    }
    body.resize(in_len, 0);
    let mut b = vec![131u8, tag];
    b.extend_from_slice(&body);
    if a[2] == "agree" {
        // the model fixes the leading fields; the top-level entry points also reject trailing bytes, so every prefix length is tried
        let show = |r: &std::thread::Result<Option<String>>| match r { Ok(Some(v)) => format!("accepts {}", v), Ok(None) => "rejects".to_string(), Err(_) => "panics".to_string() };
        for l in 2..=b.len() {
            let p = b[..l].to_vec();
            let o = std::panic::catch_unwind(|| erltf::decode(&p).ok().map(|t| format!("{:?}", t)));
            let z = std::panic::catch_unwind(|| erltf::decode_borrowed(&p).ok().map(|t| format!("{:?}", t.to_owned())));
            if show(&o) != show(&z) {
                eprintln!("REPLAY: on {:?} the owned decoder {} and the zero-copy decoder {}", &p[..p.len().min(24)], show(&o), show(&z));
                std::process::exit(101);
            }
        }
        println!("REPLAY: both decoders agree on every prefix of the {} bytes", b.len());
        std::process::exit(0);
    }
    let borrowed = a[2] == "borrowed";
    let r = std::panic::catch_unwind(|| if borrowed { erltf::decode_borrowed(&b).is_ok() } else { erltf::decode(&b).is_ok() });
    if r.is_err() {
        eprintln!("REPLAY: {} decoder panicked on {:?}", a[2], &b[..b.len().min(24)]);
        std::process::exit(101);
    }
    println!("REPLAY: {} decoder returned on {} bytes", a[2], b.len());
    std::process::exit(0)
}

/// `toowned <shape>`: BorrowedTerm::to_owned on a hand-built term of that shape must give the structurally same owned term
fn toowned(a: &[String]) -> ! {
    use erltf::BorrowedTerm as B;
    use erltf::OwnedTerm as T;
    let (b, want): (B, T) = match a[2].as_str() {
        "nil" => (B::Nil, T::Nil),
        "int" => (B::Integer(7), T::Integer(7)),
        "list0" => (B::List(vec![]), T::List(vec![])),
        "list1" => (B::List(vec![B::Integer(1)]), T::List(vec![T::Integer(1)])),
        "list2" => (B::List(vec![B::Integer(1), B::Integer(2)]), T::List(vec![T::Integer(1), T::Integer(2)])),
        "tuple0" => (B::Tuple(vec![]), T::Tuple(vec![])),
        "tuple1" => (B::Tuple(vec![B::Integer(1)]), T::Tuple(vec![T::Integer(1)])),
        "tuple2" => (B::Tuple(vec![B::Integer(1), B::Integer(2)]), T::Tuple(vec![T::Integer(1), T::Integer(2)])),
        "list_of_empty_list" => (B::List(vec![B::List(vec![]), B::Integer(3)]), T::List(vec![T::List(vec![]), T::Integer(3)])),
        _ => (B::Tuple(vec![B::Tuple(vec![]), B::Integer(3)]), T::Tuple(vec![T::Tuple(vec![]), T::Integer(3)])),
    };
    let got = b.to_owned();
    if format!("{:?}", got) != format!("{:?}", want) {
        eprintln!("REPLAY: to_owned gave {:?}, expected {:?}", got, want);
        std::process::exit(101);
    }
    println!("REPLAY: to_owned keeps {:?}", want);
    std::process::exit(0)
}

fn main() {
    let a: Vec<String> = std::env::args().collect();
    let kind = a[1].as_str();
    if kind == "toowned" {
        toowned(&a);
    }
    if kind == "leaf" {
        leaf(&a);
    }
    if kind == "cmpseq" {
        cmpseq(&a);
    }
    if kind == "digest" {
        digest(&a);
    }
    if !["allocate", "make_reference", "wrapper", "ctl", "conv", "frag", "fragexp", "props", "disthdr", "disthdr_tuple", "capsite"].contains(&kind) {
        eprintln!("REPLAY: unknown mode {}", kind);
        std::process::exit(2);
    }
    if kind == "capsite" {
        capsite(&a);
    }
    if kind == "disthdr" || kind == "disthdr_tuple" {
        disthdr(&a);
    }
    if kind == "props" {
        props(&a);
    }
    if kind == "fragexp" {
        fragexp();
    }
    if kind == "frag" {
        frag(&a);
    }
    if kind == "conv" {
        conv(&a);
    }
    if kind == "wrapper" {
        wrapper(&a);
    }
    if kind == "ctl" {
        ctl(&a);
    }
    let t: usize = a[2].parse().unwrap();
    let k: usize = a[3].parse().unwrap();
    let next_id: u32 = a[4].parse().unwrap();
    let next_serial: u64 = a[5].parse().unwrap();
    let creation: u32 = a[6].parse().unwrap();
    let order: Vec<usize> = if a.len() > 7 && !a[7].is_empty() { a[7].split(',').map(|x| x.parse().unwrap()).collect() } else { vec![] };
    let sched = Arc::new(Sched { order, pos: Mutex::new(0), cv: Condvar::new() });
    let s2 = sched.clone();
    edp_client::verif_hooks::install(Box::new(move |_point| {
        let me = TID.with(|c| c.get());
        if me == usize::MAX {
            return;
        }
        let mut pos = s2.pos.lock().unwrap();
        loop {
            if *pos >= s2.order.len() {
                return; // schedule exhausted: run freely
            }
            if s2.order[*pos] == me {
                *pos += 1;
                s2.cv.notify_all();
                return;
            }
            let (p, to) = s2.cv.wait_timeout(pos, std::time::Duration::from_secs(5)).unwrap();
            pos = p;
            if to.timed_out() {
                eprintln!("REPLAY: schedule cannot be followed (thread {} waited at step {})", me, *pos);
                std::process::exit(4);
            }
        }
    }));
    let mut results: Vec<(u64, u64, u64)> = Vec::new();
    if kind == "allocate" {
        let alloc = Arc::new(edp_client::PidAllocator::new(erltf::Atom::new("n@h"), edp_client::Creation(creation)));
        alloc.next_id_test_only().store(next_id, std::sync::atomic::Ordering::SeqCst);
        alloc.next_serial_test_only().store(next_serial, std::sync::atomic::Ordering::SeqCst);
        let mut hs = Vec::new();
        for i in 0..t {
            let al = alloc.clone();
            hs.push(std::thread::spawn(move || {
                TID.with(|c| c.set(i));
                let mut out = Vec::new();
                for _ in 0..k {
                    let p = al.allocate().expect("allocate");
                    out.push((p.id as u64, p.serial as u64, p.creation as u64));
                }
                out
            }));
        }
        for h in hs {
            results.extend(h.join().expect("thread panicked"));
        }
        for r in &results {
            if r.2 != creation as u64 {
                eprintln!("REPLAY: stale creation {:?}", r);
                std::process::exit(101);
            }
        }
        let mut seen = std::collections::HashSet::new();
        for r in &results {
            if !seen.insert((r.0, r.1)) {
                eprintln!("REPLAY: duplicate pid (id, serial) = ({}, {}) among {:?}", r.0, r.1, results);
                std::process::exit(101);
            }
        }
        if t == 1 && k == 1 {
            // inductive-step mode: report the successor state
            println!("REPLAY: next_id={} next_serial={}", alloc.next_id_test_only().load(std::sync::atomic::Ordering::SeqCst),
                alloc.next_serial_test_only().load(std::sync::atomic::Ordering::SeqCst));
        }
    } else {
        // the reference counter starts at 0 (it has no setter); a schedule-induced collision does not depend on its value
        let node = Arc::new(edp_node::Node::new("n@h", "cookie"));
        let mut hs = Vec::new();
        for i in 0..t {
            let nd = node.clone();
            hs.push(std::thread::spawn(move || {
                TID.with(|c| c.set(i));
                let mut out = Vec::new();
                for _ in 0..k {
                    let r = nd.make_reference();
                    out.push((r.ids[0] as u64, r.ids[1] as u64, r.ids[2] as u64));
                }
                out
            }));
        }
        for h in hs {
            results.extend(h.join().expect("thread panicked"));
        }
        let mut seen = std::collections::HashSet::new();
        for r in &results {
            if !seen.insert(*r) {
                eprintln!("REPLAY: duplicate reference {:?} among {:?}", r, results);
                std::process::exit(101);
            }
        }
    }
    println!("REPLAY: no violation; results {:?}", results);
}
