"""Minimal parser for rustc's `-Zunpretty=mir` text: functions -> locals, basic blocks, statements, terminators."""
import os
import re
import subprocess


class MirError(Exception):
    pass


class Fn:
    def __init__(self, name, header):
        self.name = name
        self.header = header
        self.locals = {}     # "_3" -> type string
        self.blocks = {}     # "bb0" -> (stmts[list of str], terminator str, cleanup bool)
        self.debug = {}      # "_10" -> source name


def dump_mir(crate_dir, out_path, target_dir):
    """Regenerates the MIR dump of a crate from /repo's working tree (nightly rustc)."""
    lib = os.path.join(crate_dir, "src", "lib.rs")
    os.utime(lib, None)
    env = dict(os.environ, CARGO_TARGET_DIR=target_dir, CARGO_NET_OFFLINE="true")
    env.pop("RUSTFLAGS", None)
    env["RUSTFLAGS"] = "--cfg edp_rs_verif"
    cmd = ["cargo", "+nightly", "rustc", "--offline", "--lib", "--", "-Zunpretty=mir", "-C", "debug-assertions=off",
           "-C", "overflow-checks=on"]
    p = subprocess.run(cmd, cwd=crate_dir, env=env, stdout=subprocess.PIPE, stderr=subprocess.PIPE, text=True)
    if p.returncode != 0 or "fn " not in p.stdout:
        raise MirError("MIR dump failed: " + p.stderr[-1500:])
    open(out_path, "w").write(p.stdout)
    return out_path


def parse_functions(text, wanted):
    """wanted: regex matched against the function header line.  Returns list of Fn."""
    fns = []
    lines = text.splitlines()
    i = 0
    while i < len(lines):
        ln = lines[i]
        if ln.startswith("fn ") and re.search(wanted, ln):
            f = Fn(ln.split("(")[0][3:], ln)
            # arguments
            m = re.match(r"fn .*?\((.*)\) -> (.*) \{$", ln) or re.match(r"fn .*?\((.*)\) \{$", ln)
            if m:
                for a in split_top(m.group(1)):
                    mm = re.match(r"\s*(_\d+): (.*)", a)
                    if mm:
                        f.locals[mm.group(1)] = mm.group(2).strip()
            i += 1
            cur = None
            while i < len(lines) and lines[i] != "}":
                l = lines[i].strip()
                m = re.match(r"let (mut )?(_\d+): (.*);$", l)
                if m:
                    f.locals[m.group(2)] = m.group(3)
                m = re.match(r"debug (\S+) => (_\d+);", l)
                if m:
                    f.debug[m.group(2)] = m.group(1)
                m = re.match(r"(bb\d+)( \(cleanup\))?: \{$", l)
                if m:
                    cur = m.group(1)
                    f.blocks[cur] = ([], None, bool(m.group(2)))
                    i += 1
                    body = []
                    while lines[i].strip() != "}":
                        body.append(lines[i].strip())
                        i += 1
                    if not body:
                        raise MirError("empty block " + cur)
                    f.blocks[cur] = (body[:-1], body[-1], bool(m.group(2)))
                i += 1
            fns.append(f)
        i += 1
    return fns


def split_top(s):
    """split on commas not nested in <>, (), [] or {}"""
    out, depth, cur = [], 0, ""
    s = s.replace("->", "\u2192")
    for ch in s:
        if ch in "<([{":
            depth += 1
        elif ch in ">)]}":
            depth -= 1
        if ch == "," and depth == 0:
            out.append(cur)
            cur = ""
        else:
            cur += ch
    if cur.strip():
        out.append(cur)
    return [x.replace("\u2192", "->") for x in out]
