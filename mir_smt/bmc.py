"""Bounded model checking of T threads x K calls of one MIR function over a sequentially consistent
shared state: the schedule is a symbolic sequence of thread ids, the initial shared state is symbolic,
an SMT solver looks for a schedule + state in which a `bad` condition (MIR assert) fires or the
property-specific collision predicate holds."""
import os
import re
import subprocess
import time


class Model:
    def __init__(self, tree, threads, calls, fields, locks, steps=None):
        self.tree = tree
        self.T = threads
        self.K = calls
        self.fields = fields        # {field index: (name, width)} atomics
        self.locks = locks          # [field index] mutexes
        nvis = len(tree.nodes) + 1
        self.N = nvis               # pc values per call: 0 = start, 1+node.id
        self.L = steps or threads * calls * (self.longest() + 1)
        self.lines = []

    def longest(self):
        memo = {}

        def depth(n):
            if n.id in memo:
                return memo[n.id]
            d = 1 + max([depth(s) for _c, s in n.succ] or [0])
            memo[n.id] = d
            return d
        return max(depth(s) for _c, s in self.tree.entry_succ) + 1

    def pcv(self, c, n):
        return c * self.N + (0 if n is None else n.id + 1)

    def done(self):
        return self.K * self.N

    def sub(self, expr, i, c):
        return re.sub(r"@R(\d+)@", lambda m: "t%dc%d_r%s" % (i, c, m.group(1)), expr)

    def emit(self, s):
        self.lines.append(s)

    def build(self, init_constraints):
        E = self.emit
        E("(set-logic ALL)")
        L, T = self.L, self.T
        for t in range(L + 1):
            for i in range(T):
                E("(declare-const pc_%d_%d Int)" % (i, t))
            for k, (nm, w) in self.fields.items():
                E("(declare-const f%d_%d (_ BitVec %d))" % (k, t, w))
            for k in self.locks:
                E("(declare-const lk%d_%d Bool)" % (k, t))
        for t in range(L):
            E("(declare-const sched_%d Int)" % t)
            E("(assert (and (>= sched_%d 0) (< sched_%d %d)))" % (t, t, T))
        for i in range(T):
            for c in range(self.K):
                for n in self.tree.nodes:
                    if n.result:
                        E("(declare-const t%dc%d_r%d (_ BitVec %d))" % (i, c, n.id, n.width))
        for i in range(T):
            E("(assert (= pc_%d_0 0))" % i)
        for k in self.locks:
            E("(assert (not lk%d_0))" % k)
        for a in init_constraints:
            E("(assert %s)" % a)
        bads = []
        self.vis = {}
        for t in range(L):
            # per-thread moves
            fnext = {k: "f%d_%d" % (k, t) for k in self.fields}
            lnext = {k: "lk%d_%d" % (k, t) for k in self.locks}
            for i in range(T):
                sel = "(= sched_%d %d)" % (t, i)
                pcn = "pc_%d_%d" % (i, t)
                for c in range(self.K):
                    # start pseudo node
                    g = "(and %s (= pc_%d_%d %d))" % (sel, i, t, self.pcv(c, None))
                    pcn = "(ite %s %s %s)" % (g, self.succ_expr(self.tree.entry_succ, i, c), pcn)
                    for (cond, msg) in self.tree.entry_bad:
                        bads.append(("(and %s %s)" % (g, self.sub(cond, i, c)), msg, i, c))
                    for n in self.tree.nodes:
                        at = "(= pc_%d_%d %d)" % (i, t, self.pcv(c, n))
                        en = "(not lk%d_%d)" % (n.field, t) if n.action == "lock" else "true"
                        g = "(and %s %s %s)" % (sel, at, en)
                        if n.action == "ret":
                            nxt = str(self.pcv(c + 1, None)) if c + 1 < self.K else str(self.done())
                            self.vis.setdefault((i, c, n.id), []).append(g)
                        else:
                            nxt = self.succ_expr(n.succ, i, c)
                        pcn = "(ite %s %s %s)" % (g, nxt, pcn)
                        for (cond, msg) in n.bad:
                            bads.append(("(and %s %s)" % (g, self.sub(cond, i, c)), msg, i, c))
                        if n.action == "lock":
                            lnext[n.field] = "(ite %s true %s)" % (g, lnext[n.field])
                        elif n.action == "unlock":
                            lnext[n.field] = "(ite %s false %s)" % (g, lnext[n.field])
                        elif n.action in ("load", "store", "fetch_add", "fetch_sub", "swap", "fetch_or", "fetch_and"):
                            cur = "f%d_%d" % (n.field, t)
                            if n.result:
                                E("(assert (=> %s (= t%dc%d_r%d %s)))" % (g, i, c, n.id, cur))
                            if n.action != "load":
                                a = self.sub(n.arg, i, c)
                                new = {"store": a, "swap": a, "fetch_add": "(bvadd %s %s)" % (cur, a), "fetch_sub": "(bvsub %s %s)" % (cur, a),
                                       "fetch_or": "(bvor %s %s)" % (cur, a), "fetch_and": "(bvand %s %s)" % (cur, a)}[n.action]
                                fnext[n.field] = "(ite %s %s %s)" % (g, new, fnext[n.field])
                E("(assert (= pc_%d_%d %s))" % (i, t + 1, pcn))
            for k in self.fields:
                E("(assert (= f%d_%d %s))" % (k, t + 1, fnext[k]))
            for k in self.locks:
                E("(assert (= lk%d_%d %s))" % (k, t + 1, lnext[k]))
        self.bads = bads
        E("(define-fun all_done () Bool (and %s))" % " ".join("(= pc_%d_%d %d)" % (i, L, self.done()) for i in range(T)))
        E("(define-fun any_bad () Bool (or false %s))" % " ".join(b[0] for b in bads))

    def succ_expr(self, succ, i, c):
        if not succ:
            return "(- 1)"   # dead end (bad path): thread stops
        e = "(- 1)"
        for cond, n in reversed(succ):
            cs = self.sub(cond, i, c) if cond else "true"
            e = "(ite %s %d %s)" % (cs, self.pcv(c, n), e)
        return e

    def output(self, i, c, field_index):
        """SMT expr of record field `field_index` of the value returned by call c of thread i"""
        e = None
        for n in self.tree.nodes:
            if n.action != "ret":
                continue
            v = n.ret
            rec = v.fields[0] if v.kind == "variant" else v
            if rec.kind != "record":
                raise ValueError("return value is not a record: %r" % v)
            x = self.sub(rec.fields[field_index].s, i, c)
            vis = "(or false %s)" % " ".join(self.vis.get((i, c, n.id), []))
            e = x if e is None else "(ite %s %s %s)" % (vis, x, e)
        return e


def solve(lines, query, get_values, solver="z3", timeout_s=600):
    """runs one query on top of the base encoding; returns (status, model dict, seconds)"""
    txt = "\n".join(lines + ["(push)", "(assert %s)" % query, "(check-sat)"] +
                    (["(get-value (%s))" % " ".join(get_values)] if get_values else []) + ["(pop)", "(exit)"])
    d = os.environ.get("VERIF_DUMP_SMT")
    if d:
        os.makedirs(d, exist_ok=True)
        open(os.path.join(d, "q%03d_%s.smt2" % (len(os.listdir(d)), solver)), "w").write(txt)
        if os.environ.get("VERIF_DUMP_ONLY"):
            return ("sat" if query.startswith("(and all_done (not any_bad))") else "unknown"), {}, 0.0
    cmd = ["z3", "-in", "-T:%d" % timeout_s] if solver == "z3" else ["cvc5", "--lang", "smt2", "--incremental", "--produce-models", "--tlimit=%d" % (timeout_s * 1000)]
    t0 = time.time()
    p = subprocess.run(cmd, input=txt, stdout=subprocess.PIPE, stderr=subprocess.STDOUT, text=True)
    dt = time.time() - t0
    out = p.stdout
    first = out.strip().splitlines()[0] if out.strip() else "unknown"
    errs = [l for l in out.splitlines() if "(error" in l and not (first == "unsat" and "model is not available" in l)]
    if errs:
        return "error", {"raw": out[:600]}, dt
    model = {}
    if first == "sat":
        for m in re.finditer(r"\((\w+) ([^()]+|\(_ bv\d+ \d+\)|#x[0-9a-fA-F]+|#b[01]+|\(- \d+\))\)", out):
            v = m.group(2).strip()
            if v.startswith("#x"):
                v = int(v[2:], 16)
            elif v.startswith("#b"):
                v = int(v[2:], 2)
            elif v.startswith("(_ bv"):
                v = int(v.split()[1][2:])
            elif v.startswith("(-"):
                v = -int(v[2:-1])
            else:
                try:
                    v = int(v)
                except ValueError:
                    pass
            model[m.group(1)] = v
    return first, model, dt
