"""Symbolic execution of loop-free scalar MIR into a *visible-action tree*.

Every atomic access, lock acquisition and guard drop is a visible node; the local computation
between two visible nodes is folded into SMT-LIB bit-vector expressions over the values the earlier
visible nodes returned.  Overflow/div-by-zero asserts of the MIR become `bad` conditions.
Anything the executor does not understand raises Unsupported (=> the check is inconclusive,
never a pass)."""
import re

from .mir import split_top, MirError


class Unsupported(Exception):
    pass


WIDTH = {"u8": 8, "u16": 16, "u32": 32, "u64": 64, "usize": 64, "i8": 8, "i16": 16, "i32": 32, "i64": 64, "isize": 64,
         "u128": 128, "i128": 128}


def bv(w, v):
    return "(_ bv%d %d)" % (v % (1 << w), w)


class Val:
    """kind: bv(w, smt) | bool(smt) | tuple([Val]) | ref(field) | opaque(tag) | record(name,[Val]) | array([Val]) | box(id)"""

    def __init__(self, kind, **kw):
        self.kind = kind
        self.__dict__.update(kw)

    def __repr__(self):
        return "Val(%s,%s)" % (self.kind, {k: v for k, v in self.__dict__.items() if k != "kind"})


def BV(w, s):
    return Val("bv", w=w, s=s)


def BOOL(s):
    return Val("bool", s=s)


class Node:
    """visible action node of the per-call tree"""

    def __init__(self, nid, action, field=None, arg=None, width=None):
        self.id = nid
        self.action = action      # lock | unlock | load | store | fetch_add | fetch_sub | swap | ret
        self.field = field        # field index of *self
        self.arg = arg            # SMT expr (string) for store/fetch_add operand
        self.width = width
        self.result = None        # name of the SMT constant holding the value read (per thread instance prefix added later)
        self.succ = []            # [(cond smt|None, Node)]
        self.bad = []             # [(cond smt, message)] asserts failing on the way *out of* this node, path-conditioned
        self.ret = None           # for action == 'ret': Val record
        self.hook = None          # yield-point number seen just before this node (replay)


class Tree:
    def __init__(self):
        self.nodes = []
        self.entry_succ = []      # [(cond, Node)] from function entry
        self.entry_bad = []
        self.consts = {}

    def new_node(self, *a, **kw):
        n = Node(len(self.nodes), *a, **kw)
        self.nodes.append(n)
        return n


def parse_consts(text):
    """named constants with MIR bodies: `const path::NAME: u32 = { ... _0 = const 1048576_u32; ...`"""
    out = {}
    for m in re.finditer(r"^const (\S+): (\w+) = \{(.*?)^\}", text, re.S | re.M):
        body = m.group(3)
        mm = re.search(r"_0 = const (-?\d+)_(\w+);", body)
        if mm:
            out[m.group(1)] = (int(mm.group(1)), mm.group(2))
            continue
        # `A op B` of two literals (e.g. 64 * 1024): `_1 = MulWithOverflow(const 64_usize, const 1024_usize); ... _0 = move (_1.0: usize);`
        mm = re.search(r"_1 = (Mul|Add|Sub)WithOverflow\(const (\d+)_(\w+), const (\d+)_\w+\);", body)
        if mm and re.search(r"_0 = move \(_1\.0: \w+\);", body):
            x, y = int(mm.group(2)), int(mm.group(4))
            out[m.group(1)] = ({"Mul": x * y, "Add": x + y, "Sub": x - y}[mm.group(1)], mm.group(3))
    # trivially constant items are printed on one line:  const NAME: u32 = const 1048576_u32;
    for m in re.finditer(r"^const (\S+): (\w+) = const (-?\d+)_(\w+);", text, re.M):
        out[m.group(1)] = (int(m.group(3)), m.group(4))
    return out


BUILTIN_CONSTS = {
    "core::num::<impl u32>::MAX": ((1 << 32) - 1, "u32"), "core::num::<impl u64>::MAX": ((1 << 64) - 1, "u64"),
    "core::num::<impl u16>::MAX": ((1 << 16) - 1, "u16"), "core::num::<impl u8>::MAX": (255, "u8"),
    "core::num::<impl i64>::MAX": ((1 << 63) - 1, "i64"), "core::num::<impl i32>::MAX": ((1 << 31) - 1, "i32"),
}


class Exec:
    def __init__(self, fn, consts, fields_width):
        self.fn = fn
        self.consts = dict(BUILTIN_CONSTS)
        self.consts.update(consts)
        self.fields_width = fields_width    # field index -> bit width of the atomic
        self.tree = Tree()
        self.box_counter = 0
        self.fresh = {}          # environment symbols introduced for stubbed calls: name -> SMT sort
        self.keys = []           # map keys looked up (environment-stub mode, C20 wrappers)

    # ---------------------------------------------------------------- operands
    def ty_width(self, ty):
        ty = ty.strip()
        if ty in WIDTH:
            return WIDTH[ty]
        return None

    def const(self, s):
        s = s.strip()
        if s in ("true", "false"):
            return BOOL(s)
        m = re.match(r"^(-?\d+)_(\w+)$", s)
        if m:
            w = WIDTH.get(m.group(2))
            if w is None:
                raise Unsupported("const type " + s)
            return BV(w, bv(w, int(m.group(1))))
        if s in self.consts:
            v, ty = self.consts[s]
            return BV(WIDTH[ty], bv(WIDTH[ty], v))
        # crate-local const may be printed without the crate prefix
        for k, (v, ty) in self.consts.items():
            if k.split("::")[-1] == s.split("::")[-1] and s.split("::")[-1].replace("_", "").isupper():
                return BV(WIDTH[ty], bv(WIDTH[ty], v))
        if s.startswith("ZeroSized"):
            return Val("opaque", tag="zst")
        m = re.match(r'^"(.*)"$', s)
        if m:
            return Val("str", text=m.group(1))
        if "::promoted[" in s or s.startswith("std::option::Option::<") and s.endswith("::None"):
            return Val("opaque", tag="promoted")
        raise Unsupported("constant " + s)

    def operand(self, s, env):
        s = s.strip()
        if s.startswith("const "):
            return self.const(s[6:])
        m = re.match(r"^(copy|move) (.*)$", s)
        if m:
            return self.place(m.group(2), env)
        raise Unsupported("operand " + s)

    def place(self, p, env):
        p = p.strip()
        if re.match(r"^_\d+$", p):
            if p not in env:
                raise Unsupported("use of unassigned local " + p)
            return env[p]
        m = re.match(r"^\(\*(_\d+)\)$", p)
        if m:      # references are transparent
            if m.group(1) not in env:
                raise Unsupported("use of unassigned local " + p)
            return env[m.group(1)]
        m = re.match(r"^\(\((\(\*_\d+\)|_\d+) as (\w+)\)\.(\d+): (.*)\)$", p)
        if m and self.place(m.group(1), env).kind == "anyvariant":
            v = self.place(m.group(1), env)
            if v.seen not in (None, m.group(2)) or int(m.group(3)) != 0:
                raise Unsupported("second projection of the input enum")
            v.seen = m.group(2)
            return v.payload
        m = re.match(r"^\((\(\*_\d+\))\.(\d+): (.*)\)$", p)
        if m and self.place(m.group(1), env).kind == "ident":
            return Val("opaque", tag="ident_field_%s" % m.group(2))
        # (_20.1: bool) / ((_3 as Continue).0: T)
        m = re.match(r"^\((.*)\.(\d+): (.*)\)$", p)
        if m:
            base = m.group(1).strip()
            idx = int(m.group(2))
            mm = re.match(r"^\((_\d+) as (\w+)\)$", base)
            if mm:
                v = env.get(mm.group(1))
                if v is not None and v.kind == "opt":
                    if mm.group(2) != v.some_name or idx != 0:
                        return Val("opaque", tag="residual")
                    return v.val
                if v is None or v.kind != "variant":
                    raise Unsupported("variant projection of " + base)
                if v.variant != mm.group(2):
                    raise Unsupported("projection of inactive variant")
                return v.fields[idx]
            v = self.place(base, env)
            if v.kind == "tuple":
                return v.items[idx]
            if v.kind == "box":   # projections through Box/Unique/NonNull wrappers keep the pointer
                return v
            raise Unsupported("projection of " + repr(v))
        raise Unsupported("place " + p)

    # ---------------------------------------------------------------- rvalues
    def rvalue(self, rhs, env, dst_ty):
        rhs = rhs.strip()
        m = re.match(r"^&\(\(\*(_\d+)\)\.(\d+): .*\)$", rhs)
        if m:
            return Val("ref", field=int(m.group(2)))
        m = re.match(r"^(AddWithOverflow|SubWithOverflow|MulWithOverflow|Add|Sub|Mul|Rem|Div|Eq|Ne|Lt|Le|Gt|Ge|BitAnd|BitOr|BitXor|Shl|Shr|AddUnchecked|SubUnchecked)\((.*)\)$", rhs)
        if m:
            ops = split_top(m.group(2))
            a, b = [self.operand(x, env) for x in ops]
            signed = any(self._is_signed_operand(x) for x in ops)
            return self.binop(m.group(1), a, b, signed)
        m = re.match(r"^Not\((.*)\)$", rhs)
        if m:
            a = self.operand(m.group(1), env)
            return BOOL("(not %s)" % a.s) if a.kind == "bool" else BV(a.w, "(bvnot %s)" % a.s)
        m = re.match(r"^(.*) as (\w+) \(IntToInt\)$", rhs)
        if m:
            a = self.operand(m.group(1), env) if re.match(r"^(copy|move|const) ", m.group(1)) else self.const(m.group(1))
            w = WIDTH.get(m.group(2))
            if a.kind != "bv" or w is None:
                raise Unsupported("cast " + rhs)
            if w == a.w:
                return a
            if w < a.w:
                r = BV(w, "((_ extract %d 0) %s)" % (w - 1, a.s))
                r.signed = m.group(2).startswith("i")
                r.cast_from = a
                return r
            signed = False   # only unsigned sources occur here; a signed source would be sign-extended
            return BV(w, "((_ zero_extend %d) %s)" % (w - a.w, a.s))
        m = re.match(r"^(.*) as .* \(Transmute\)$", rhs)
        if m:
            return self.operand(m.group(1), env) if re.match(r"^(copy|move) ", m.group(1)) else self.place(m.group(1), env)
        if re.match(r"^std::sync::atomic::Ordering::\w+$", rhs):
            return Val("opaque", tag=rhs.split("::")[-1])
        m = re.match(r"^discriminant\((.*)\)$", rhs)
        if m:
            v = self.place(m.group(1), env)
            if v.kind == "cenum":
                return BV(64, v.disc)
            if v.kind == "anyvariant":
                return BV(64, bv(64, v.index))
            if v.kind == "variant":
                return BV(64, bv(64, v.index))
            if v.kind == "opt":
                return BV(64, "(ite %s %s %s)" % (v.some, bv(64, v.some_idx), bv(64, 1 - v.some_idx)))
            raise Unsupported("discriminant of " + repr(v))
        m = re.match(r"^std::result::Result::<.*>::Ok\((.*)\)$", rhs)
        if m:
            return Val("variant", variant="Ok", index=0, fields=[self.operand(m.group(1), env)])
        m = re.match(r"^std::result::Result::<.*>::Err\((.*)\)$", rhs)
        if m:
            return Val("variant", variant="Err", index=1, fields=[Val("opaque", tag="error")])
        m = re.match(r"^no_retag (copy|move) (.*)$", rhs)
        if m:
            return self.operand("%s %s" % (m.group(1), m.group(2)), env)
        m = re.match(r"^(?:\w+::)*Error::\w+\((.*)\)$", rhs)
        if m:
            return Val("opaque", tag="error")
        m = re.match(r"^\[(.*)\]$", rhs)
        if m:
            try:
                return Val("array", items=[self.operand(x, env) for x in split_top(m.group(1))])
            except Unsupported:
                return Val("opaque", tag="array")
        m = re.match(r"^&(mut )?(_\d+)$", rhs)
        if m:
            return env[m.group(2)]
        m = re.match(r"^&(mut )?(\(.*\))$", rhs)
        if m and "anyvariant" in [getattr(v, "kind", None) for v in env.values()]:
            return self.place(m.group(2), env)
        m = re.match(r"^(?:\w+::)*(OwnedTerm|BorrowedTerm)(?:::<'_>)?::(\w+)(?:\((.*)\))?$", rhs)
        if m and m.group(2) != "Atom":
            flds = [self.operand(x, env) for x in split_top(m.group(3))] if m.group(3) else []
            return Val("variant", variant=m.group(2), index=-1, fields=flds, enum=m.group(1))
        m = re.match(r"^std::ops::RangeFrom::<usize> \{ start: const (\d+)_usize \}$", rhs)
        if m:
            return Val("rangefrom", start=int(m.group(1)))
        m = re.match(r'^const b".*"$|^const ".*"$', rhs)
        if m:
            return Val("opaque", tag="bytes")
        m = re.match(r"^&(_\d+)$", rhs)
        if m:
            return env[m.group(1)]
        m = re.match(r"^(?:std::option::)?Option::<.*>::None$", rhs)
        if m:
            return Val("opt", some="false", val=Val("opaque", tag="none"), some_idx=1, some_name="Some")
        m = re.match(r"^(?:std::option::)?Option::<.*>::Some\((.*)\)$", rhs)
        if m:
            return Val("opt", some="true", val=self.operand(m.group(1), env), some_idx=1, some_name="Some")
        m = re.match(r"^erltf::OwnedTerm::Atom\((.*)\)$", rhs)
        if m:
            a = self.operand(m.group(1), env)
            return Val("keyterm", key=getattr(a, "text", None))
        m = re.match(r"^\((.*)\)$", rhs)
        if m and re.match(r"^(copy|move|const) ", m.group(1).strip()):
            items = []
            for x in split_top(m.group(1)):
                if x.strip():
                    items.append(self.operand(x, env))
            return Val("tuple", items=items)
        m = re.match(r"^((?:\w+::)*ControlMessage::\w+)$", rhs)
        if m:
            return Val("struct", name=m.group(1), fields={})
        m = re.match(r"^([A-Za-z_][\w:]*) \{ (.*) \}$", rhs)
        if m:
            fields = {}
            for part in split_top(m.group(2)):
                k, v = part.split(":", 1)
                fields[k.strip()] = self.operand(v.strip(), env)
            return Val("struct", name=m.group(1), fields=fields)
        if re.match(r"^(copy|move|const) ", rhs):
            return self.operand(rhs, env)
        raise Unsupported("rvalue " + rhs)

    def _is_signed_operand(self, text):
        text = text.strip()
        m = re.match(r"^const -?\d+_(i\d+|isize)$", text)
        if m:
            return True
        m = re.match(r"^(?:copy|move) (_\d+)$", text)
        if m:
            return self.fn.locals.get(m.group(1), "").strip().startswith("i") and self.fn.locals.get(m.group(1), "").strip() in WIDTH
        return False

    def binop(self, op, a, b, signed=False):
        if a.kind == "bool" and b.kind == "bool":
            t = {"Eq": "(= %s %s)", "Ne": "(not (= %s %s))", "BitAnd": "(and %s %s)", "BitOr": "(or %s %s)", "BitXor": "(xor %s %s)"}.get(op)
            if t:
                return BOOL(t % (a.s, b.s))
        if a.kind != "bv" or b.kind != "bv" or a.w != b.w:
            if op in ("Shl", "Shr") and a.kind == "bv" and b.kind == "bv":
                pass
            else:
                raise Unsupported("binop %s on %r %r" % (op, a, b))
        w = a.w
        x, y = a.s, b.s
        if op in ("Add", "AddUnchecked"):
            return BV(w, "(bvadd %s %s)" % (x, y))
        if op in ("Sub", "SubUnchecked"):
            return BV(w, "(bvsub %s %s)" % (x, y))
        if op == "Mul":
            return BV(w, "(bvmul %s %s)" % (x, y))
        if op == "Rem":
            return BV(w, "(bvurem %s %s)" % (x, y))
        if op == "Div":
            return BV(w, "(bvudiv %s %s)" % (x, y))
        if op == "BitAnd":
            return BV(w, "(bvand %s %s)" % (x, y))
        if op == "BitOr":
            return BV(w, "(bvor %s %s)" % (x, y))
        if op == "BitXor":
            return BV(w, "(bvxor %s %s)" % (x, y))
        if op == "AddWithOverflow":   # unsigned
            return Val("tuple", items=[BV(w, "(bvadd %s %s)" % (x, y)), BOOL("(bvult (bvadd %s %s) %s)" % (x, y, x))])
        if op == "SubWithOverflow":
            return Val("tuple", items=[BV(w, "(bvsub %s %s)" % (x, y)), BOOL("(bvult %s %s)" % (x, y))])
        if op == "MulWithOverflow":
            wide = "(bvmul ((_ zero_extend %d) %s) ((_ zero_extend %d) %s))" % (w, x, w, y)
            return Val("tuple", items=[BV(w, "(bvmul %s %s)" % (x, y)),
                                       BOOL("(not (= ((_ extract %d %d) %s) %s))" % (2 * w - 1, w, wide, bv(w, 0)))])
        cmpop = {"Eq": "(= %s %s)", "Ne": "(not (= %s %s))", "Lt": "(bvult %s %s)", "Le": "(bvule %s %s)", "Gt": "(bvugt %s %s)",
                 "Ge": "(bvuge %s %s)"}.get(op)
        if signed and cmpop:
            cmpop = cmpop.replace("bvu", "bvs")
        if cmpop:
            return BOOL(cmpop % (x, y))
        raise Unsupported("binop " + op)

    # ---------------------------------------------------------------- driver
    def run(self, init_env=None):
        """explores every path from bb0; returns Tree"""
        self._explore("bb0", 0, dict(init_env or {}), None, "true", {}, None)
        return self.tree

    def _attach(self, parent, cond, node):
        if parent is None:
            self.tree.entry_succ.append((cond, node))
        else:
            parent.succ.append((cond, node))

    def _bad(self, parent, cond, msg):
        if parent is None:
            self.tree.entry_bad.append((cond, msg))
        else:
            parent.bad.append((cond, msg))

    def _explore(self, bb, si, env, parent, pc, heap, hook):
        """env: local -> Val; parent: last visible Node; pc: path condition since parent (SMT)"""
        fn = self.fn
        while True:
            stmts, term, cleanup = fn.blocks[bb]
            if cleanup:
                raise Unsupported("reached cleanup block " + bb)
            for k in range(si, len(stmts)):
                st = stmts[k]
                if re.match(r"^(StorageLive|StorageDead|nop|FakeRead|PlaceMention|Retag|AscribeUserType|Coverage)", st):
                    continue
                m = re.match(r"^(_\d+) = (.*);$", st)
                if m:
                    env = dict(env)
                    env[m.group(1)] = self.rvalue(m.group(2), env, fn.locals.get(m.group(1), ""))
                    continue
                m = re.match(r"^\(.*\(\*(_\d+)\).*\) = (\[.*\]);$", st)
                if m:   # initialising the contents of a fresh Box
                    base = env.get(m.group(1))
                    if base is None or base.kind != "box":
                        raise Unsupported("store through " + m.group(1))
                    heap = dict(heap)
                    heap[base.id] = self.rvalue(m.group(2), env, "")
                    continue
                raise Unsupported("statement " + st)
            si = 0
            # ---- terminator
            t = term
            m = re.match(r"^goto -> (bb\d+);$", t)
            if m:
                bb = m.group(1)
                continue
            if t == "return;":
                n = self.tree.new_node("ret")
                n.ret = env.get("_0")
                if n.ret is None:
                    raise Unsupported("return without _0")
                self._attach(parent, pc, n)
                return
            if t == "unreachable;":
                self._bad(parent, pc, "unreachable reached")
                return
            m = re.match(r"^switchInt\((.*)\) -> \[(.*)\];$", t)
            if m:
                v = self.operand(m.group(1), env)
                arms = [a.strip() for a in m.group(2).split(",")]
                taken = []
                for a in arms:
                    k, tgt = [x.strip() for x in a.split(":")]
                    if k == "otherwise":
                        if v.kind == "bool":
                            c = v.s     # the only listed value of a bool switch is 0
                        else:
                            c = "(and %s)" % " ".join("(not (= %s %s))" % (v.s, bv(v.w, int(x))) for x in taken) if taken else "true"
                    else:
                        if v.kind == "bool":
                            c = "(not %s)" % v.s if int(k) == 0 else v.s
                        else:
                            c = "(= %s %s)" % (v.s, bv(v.w, int(k)))
                        taken.append(k)
                    c = simplify_const(c)
                    lit = re.match(r"^\(_ bv(\d+) \d+\)$", v.s) if v.kind == "bv" else None
                    if lit:     # concrete scrutinee: decide the arm here
                        val = int(lit.group(1))
                        c = "true" if ((k == "otherwise" and str(val) not in taken) or (k != "otherwise" and int(k) == val)) else "false"
                    if c == "false":
                        continue
                    npc = c if pc == "true" else ("(and %s %s)" % (pc, c) if c != "true" else pc)
                    self._explore(tgt, 0, env, parent, npc, heap, hook)
                return
            m = re.match(r"^assert\((.*?), \".*?\".*\) -> \[success: (bb\d+), unwind.*\];$", t)
            if m:
                c = m.group(1).strip()
                neg = c.startswith("!")
                v = self.operand(c[1:] if neg else c, env)
                ok = "(not %s)" % v.s if neg else v.s
                okc = simplify_const(ok)
                if okc != "true":
                    msg = re.search(r"\"(.*?)\"", t).group(1)
                    self._bad(parent, "(and %s (not %s))" % (pc, ok), "panic: " + msg)
                    pc = "(and %s %s)" % (pc, ok) if pc != "true" else ok
                bb = m.group(2)
                continue
            m = re.match(r"^drop\((_\d+)\) -> \[return: (bb\d+), unwind.*\];$", t)
            if m:
                ty = fn.locals.get(m.group(1), "")
                if "MutexGuard" in ty:
                    v = env.get(m.group(1))
                    if v is None or v.kind != "guard":
                        raise Unsupported("drop of a guard that is not held")
                    n = self.tree.new_node("unlock", field=v.field)
                    n.hook = hook
                    self._attach(parent, pc, n)
                    parent, pc, hook = n, "true", None
                bb = m.group(2)
                continue
            m = re.match(r"^(.*) -> \[return: (bb\d+), unwind.*\];$", t)
            if m and m.group(1).endswith(")"):
                head, nxt = m.group(1), m.group(2)
                # the argument list is the last balanced (...) group
                depth, k = 0, len(head) - 1
                while k >= 0:
                    if head[k] == ")":
                        depth += 1
                    elif head[k] == "(":
                        depth -= 1
                        if depth == 0:
                            break
                    k -= 1
                args = head[k + 1:-1]
                pre = head[:k]
                mm = re.match(r"^(_\d+) = (.*)$", pre)
                dst, callee = (mm.group(1), mm.group(2).strip()) if mm else (None, pre.strip())
                if mm is None and " = " in pre and not pre.startswith("<"):
                    raise Unsupported("call destination in " + pre)
                argv = [a for a in split_top(args)]
                res, parent, pc, hook, heap = self.call(callee, argv, env, parent, pc, hook, heap)
                if dst:
                    if not re.match(r"^_\d+$", dst):
                        raise Unsupported("call destination " + dst)
                    env = dict(env)
                    env[dst] = res
                bb = nxt
                continue
            raise Unsupported("terminator " + t)

    def call(self, callee, argv, env, parent, pc, hook, heap):
        A = lambda i: self.operand(argv[i], env)
        c = callee
        if re.search(r"(^|::)yield_point$|verif_yield$", c):
            v = A(0)
            mm = re.search(r"bv(\d+) ", v.s)
            return Val("opaque", tag="unit"), parent, pc, int(mm.group(1)) if mm else None, heap
        if re.match(r"^std::sync::Mutex::<.*>::lock$", c):
            r = A(0)
            if r.kind != "ref":
                raise Unsupported("lock on " + repr(r))
            n = self.tree.new_node("lock", field=r.field)
            n.hook = hook
            self._attach(parent, pc, n)
            return Val("lockresult", field=r.field), n, "true", None, heap
        if re.match(r"^std::mem::drop::<.*MutexGuard.*>$", c):
            v = A(0)
            if v.kind != "guard":
                raise Unsupported("mem::drop of " + repr(v))
            n = self.tree.new_node("unlock", field=v.field)
            n.hook = hook
            self._attach(parent, pc, n)
            return Val("opaque", tag="unit"), n, "true", None, heap
        if re.search(r"::map_err::<", c) or re.search(r"as Deref>::deref$", c):
            return A(0), parent, pc, hook, heap
        if re.search(r"as Try>::branch$", c):
            v = A(0)
            if v.kind == "lockresult":
                # assumption (stated in evidence): the mutex is never poisoned
                return Val("variant", variant="Continue", index=0, fields=[Val("guard", field=v.field)]), parent, pc, hook, heap
            if v.kind == "opt":
                return Val("opt", some=v.some, val=v.val, some_idx=0, some_name="Continue"), parent, pc, hook, heap
            raise Unsupported("Try::branch on " + repr(v))
        m = re.match(r"^(?:std::sync::atomic::)?Atomic::<(\w+)>::(load|store|fetch_add|fetch_sub|swap|fetch_or|fetch_and)$", c)
        if m:
            w = WIDTH[m.group(1)]
            op = m.group(2)
            r = A(0)
            if r.kind != "ref":
                raise Unsupported("atomic op on " + repr(r))
            arg = None
            if op != "load":
                a = A(1)
                if a.kind != "bv":
                    raise Unsupported("atomic operand")
                arg = a.s
            n = self.tree.new_node(op, field=r.field, arg=arg, width=w)
            n.hook = hook
            n.result = "r%d" % n.id
            self._attach(parent, pc, n)
            res = Val("opaque", tag="unit") if op == "store" else BV(w, "@R%d@" % n.id)
            return res, n, "true", None, heap
        m = re.match(r"^core::num::<impl (\w+)>::(wrapping_add|wrapping_sub|wrapping_mul|saturating_add|saturating_sub|checked_add|checked_sub|"
                     r"overflowing_add|min|max|pow)$", c)
        if m and m.group(1) in WIDTH and m.group(1).startswith("u"):
            w = WIDTH[m.group(1)]
            a, b = A(0), A(1)
            if a.kind != "bv" or b.kind != "bv":
                raise Unsupported("integer method on " + repr(a))
            op = m.group(2)
            x, y = a.s, b.s
            add, sub = "(bvadd %s %s)" % (x, y), "(bvsub %s %s)" % (x, y)
            ovf, unf = "(bvult %s %s)" % (add, x), "(bvult %s %s)" % (x, y)
            if op == "wrapping_add":
                r = BV(w, add)
            elif op == "wrapping_sub":
                r = BV(w, sub)
            elif op == "wrapping_mul":
                r = BV(w, "(bvmul %s %s)" % (x, y))
            elif op == "saturating_add":
                r = BV(w, "(ite %s %s %s)" % (ovf, bv(w, (1 << w) - 1), add))
            elif op == "saturating_sub":
                r = BV(w, "(ite %s %s %s)" % (unf, bv(w, 0), sub))
            elif op == "checked_add":
                r = Val("opt", some="(not %s)" % ovf, val=BV(w, add), some_idx=1, some_name="Some")
            elif op == "checked_sub":
                r = Val("opt", some="(not %s)" % unf, val=BV(w, sub), some_idx=1, some_name="Some")
            elif op == "overflowing_add":
                r = Val("tuple", items=[BV(w, add), BOOL(ovf)])
            elif op == "min":
                r = BV(w, "(ite (bvule %s %s) %s %s)" % (x, y, x, y))
            elif op == "max":
                r = BV(w, "(ite (bvuge %s %s) %s %s)" % (x, y, x, y))
            else:
                raise Unsupported("integer method " + op)
            return r, parent, pc, hook, heap
        m = re.match(r"^core::num::<impl (\w+)>::(unsigned_abs|abs|wrapping_abs|checked_abs|is_negative|is_positive|signum|min|max|clamp|"
                     r"wrapping_add|wrapping_sub|wrapping_neg|rem_euclid)$", c)
        if m and m.group(1) in WIDTH and m.group(1).startswith("i"):
            w = WIDTH[m.group(1)]
            op = m.group(2)
            a = A(0)
            if a.kind != "bv" or a.w != w:
                raise Unsupported("integer method on " + repr(a))
            x = a.s
            neg = "(bvslt %s %s)" % (x, bv(w, 0))
            absx = "(ite %s (bvneg %s) %s)" % (neg, x, x)
            is_min = "(= %s %s)" % (x, bv(w, 1 << (w - 1)))
            if op in ("unsigned_abs", "wrapping_abs"):
                r = BV(w, absx)
            elif op == "abs":     # overflow-checks=on: i::MIN.abs() panics
                self._bad(parent, "(and %s %s)" % (pc, is_min), "panic: attempt to negate with overflow (abs)")
                pc = "(and %s (not %s))" % (pc, is_min) if pc != "true" else "(not %s)" % is_min
                r = BV(w, absx)
            elif op == "checked_abs":
                r = Val("opt", some="(not %s)" % is_min, val=BV(w, absx), some_idx=1, some_name="Some")
            elif op == "is_negative":
                r = BOOL(neg)
            elif op == "is_positive":
                r = BOOL("(bvsgt %s %s)" % (x, bv(w, 0)))
            elif op == "signum":
                r = BV(w, "(ite %s %s (ite (= %s %s) %s %s))" % (neg, bv(w, -1), x, bv(w, 0), bv(w, 0), bv(w, 1)))
            elif op == "wrapping_neg":
                r = BV(w, "(bvneg %s)" % x)
            else:
                b = A(1)
                if b.kind != "bv" or b.w != w:
                    raise Unsupported("integer method operand")
                y = b.s
                if op == "min":
                    r = BV(w, "(ite (bvsle %s %s) %s %s)" % (x, y, x, y))
                elif op == "max":
                    r = BV(w, "(ite (bvsge %s %s) %s %s)" % (x, y, x, y))
                elif op == "clamp":
                    z = A(2).s
                    r = BV(w, "(ite (bvslt %s %s) %s (ite (bvsgt %s %s) %s %s))" % (x, y, y, x, z, z, x))
                elif op == "wrapping_add":
                    r = BV(w, "(bvadd %s %s)" % (x, y))
                elif op == "wrapping_sub":
                    r = BV(w, "(bvsub %s %s)" % (x, y))
                elif op == "rem_euclid":
                    self._bad(parent, "(and %s (= %s %s))" % (pc, y, bv(w, 0)), "panic: rem_euclid by zero")
                    r = BV(w, "(bvsmod %s (ite (bvslt %s %s) (bvneg %s) %s))" % (x, y, bv(w, 0), y, y))
                else:
                    raise Unsupported("integer method " + op)
            if r.kind == "bv":
                r.signed = op != "unsigned_abs"
                r.cast_from = a          # provenance: derived from `a` (followed to its root by the no-fabrication oracle)
            elif r.kind == "opt" and r.val.kind == "bv":
                r.val.signed, r.val.cast_from = True, a
            return r, parent, pc, hook, heap
        m = re.match(r"^core::num::<impl (\w+)>::clamp$", c)
        if m and m.group(1) in WIDTH and m.group(1).startswith("u"):
            w = WIDTH[m.group(1)]
            x, y, z = A(0).s, A(1).s, A(2).s
            return BV(w, "(ite (bvult %s %s) %s (ite (bvugt %s %s) %s %s))" % (x, y, y, x, z, z, x)), parent, pc, hook, heap
        if re.match(r"^(std::result::)?Result::<.*>::unwrap_or_default$|^(std::option::)?Option::<.*>::unwrap_or_default$", c):
            v = A(0)
            if v.kind != "opt" or v.val.kind != "bv":
                raise Unsupported("unwrap_or_default on " + repr(v))
            r = BV(v.val.w, "(ite %s %s %s)" % (v.some, v.val.s, bv(v.val.w, 0)))
            r.signed, r.cast_from = getattr(v.val, "signed", False), v.val
            return r, parent, pc, hook, heap
        m = re.match(r"^<(\w+) as (?:std::convert::)?TryFrom<(\w+)>>::try_from$", c)
        if m and m.group(1) in WIDTH and m.group(2) in WIDTH:
            wt, wf = WIDTH[m.group(1)], WIDTH[m.group(2)]
            st, sf = m.group(1).startswith("i"), m.group(2).startswith("i")
            a = A(0)
            if a.kind != "bv" or a.w != wf:
                raise Unsupported("try_from operand")
            if wt < wf:
                v = BV(wt, "((_ extract %d 0) %s)" % (wt - 1, a.s))
            elif wt == wf:
                v = BV(wt, a.s)
            else:
                v = BV(wt, "((_ %s %d) %s)" % ("sign_extend" if sf else "zero_extend", wt - wf, a.s))
            v.signed, v.cast_from = st, a
            # in range of the target type?
            lo = -(1 << (wt - 1)) if st else 0
            hi = (1 << (wt - 1)) - 1 if st else (1 << wt) - 1
            conds = []
            if sf:
                if lo > -(1 << (wf - 1)):
                    conds.append("(bvsge %s %s)" % (a.s, bv(wf, lo)))
                if hi < (1 << (wf - 1)) - 1:
                    conds.append("(bvsle %s %s)" % (a.s, bv(wf, hi)))
            else:
                if hi < (1 << wf) - 1:
                    conds.append("(bvule %s %s)" % (a.s, bv(wf, hi)))
            ok = "(and true %s)" % " ".join(conds)
            return Val("opt", some=ok, val=v, some_idx=0, some_name="Ok"), parent, pc, hook, heap
        if re.match(r"^(std::result::)?Result::<.*>::ok$", c):
            v = A(0)
            if v.kind != "opt":
                raise Unsupported("Result::ok on " + repr(v))
            return Val("opt", some=v.some, val=v.val, some_idx=1, some_name="Some"), parent, pc, hook, heap
        if re.match(r"^(std::result::)?Result::<.*>::unwrap_or$|^(std::option::)?Option::<.*>::unwrap_or$", c):
            v, d = A(0), A(1)
            if v.kind != "opt" or d.kind != "bv" or v.val.kind != "bv":
                raise Unsupported("unwrap_or on " + repr(v))
            return BV(d.w, "(ite %s %s %s)" % (v.some, v.val.s, d.s)), parent, pc, hook, heap
        # ---- environment stubs (C20 wrappers): the term is an arbitrary map; lookups return arbitrary values
        def fresh(name, sort):
            self.fresh[name] = sort
            return name
        if re.search(r"OwnedTerm::elixir_struct_module$", c):
            return Val("opaque", tag="struct_module"), parent, pc, hook, heap
        if re.search(r"<std::option::Option<&str> as PartialEq>::(ne|eq)$", c):
            b = fresh("env_struct_name_matches", "Bool")
            return BOOL(b if c.endswith("::eq") else "(not %s)" % b), parent, pc, hook, heap
        if re.search(r"OwnedTerm::as_map$", c):
            return Val("opt", some=fresh("env_is_map", "Bool"), val=Val("opaque", tag="map"), some_idx=1, some_name="Some"), parent, pc, hook, heap
        if re.search(r"erltf::Atom::new::<&str>$|Atom::new::<&str>$", c):
            return A(0), parent, pc, hook, heap
        if re.search(r"BTreeMap::<.*>::get::<.*>$", c):
            k = A(1)
            key = getattr(k, "key", None)
            if key is None:
                raise Unsupported("map lookup with a non-constant key")
            if key not in self.keys:
                self.keys.append(key)
            return (Val("opt", some=fresh("env_has_%s" % key, "Bool"), val=Val("field", key=key), some_idx=1, some_name="Some"),
                    parent, pc, hook, heap)
        if re.search(r"OwnedTerm::as_integer$", c):
            f = A(0)
            if f.kind == "elem":
                k = f.index
                return (Val("opt", some=fresh("env_isint_%d" % k, "Bool"), val=BV(64, fresh("env_val_%d" % k, "(_ BitVec 64)")), some_idx=1, some_name="Some"),
                        parent, pc, hook, heap)
            if f.kind != "field":
                raise Unsupported("as_integer on " + repr(f))
            nm = f.key.replace(".", "_")
            return (Val("opt", some=fresh("env_isint_%s" % nm, "Bool"), val=BV(64, fresh("env_val_%s" % nm, "(_ BitVec 64)")), some_idx=1, some_name="Some"),
                    parent, pc, hook, heap)
        if re.search(r"OwnedTerm::(as_erlang_string|as_atom|as_binary|as_string|as_str|as_float|atom_name)$", c):
            f = A(0)
            nm = getattr(f, "key", "x").replace(".", "_")
            return (Val("opt", some=fresh("env_isother_%s_%d" % (nm, len(self.fresh)), "Bool"), val=Val("opaque", tag="nonint"), some_idx=1, some_name="Some"),
                    parent, pc, hook, heap)
        if re.search(r"OwnedTerm::as_2_tuple$", c):
            f = A(0)
            if f.kind != "field":
                raise Unsupported("as_2_tuple on " + repr(f))
            nm = f.key.replace(".", "_")
            return (Val("opt", some=fresh("env_is2tuple_%s" % nm, "Bool"),
                        val=Val("tuple", items=[Val("field", key=f.key + ".0"), Val("field", key=f.key + ".1")]), some_idx=1, some_name="Some"),
                    parent, pc, hook, heap)
        if re.search(r"as Try>::branch$", c) and A(0).kind == "opt":
            v = A(0)
            return Val("opt", some=v.some, val=v.val, some_idx=0, some_name="Continue"), parent, pc, hook, heap
        if re.search(r"^<std::result::Result<.*> as FromResidual<.*>>::from_residual$", c):
            return Val("variant", variant="Err", index=1, fields=[Val("opaque", tag="error")]), parent, pc, hook, heap
        if re.search(r"as FromResidual<.*>>::from_residual$", c):
            return Val("opt", some="false", val=Val("opaque", tag="none"), some_idx=1, some_name="Some"), parent, pc, hook, heap
        # ---- control messages (C08): the input is an arbitrary term; a tuple has symbolic length and opaque elements
        if re.search(r"OwnedTerm::as_tuple$", c):
            self.fresh["env_len"] = "(_ BitVec 64)"
            return (Val("opt", some=fresh("env_is_tuple", "Bool"), val=Val("vec", start=0), some_idx=1, some_name="Some"), parent, pc, hook, heap)
        if re.search(r"::ok_or_else::<", c):
            v = A(0)
            if v.kind != "opt":
                raise Unsupported("ok_or_else on " + repr(v))
            return Val("opt", some=v.some, val=v.val, some_idx=0, some_name="Ok"), parent, pc, hook, heap
        if re.search(r"slice::<impl \[.*\]>::to_vec$", c):
            return A(0), parent, pc, hook, heap
        if re.search(r"Vec::<.*>::is_empty$", c):
            v = A(0)
            return BOOL("(= env_len %s)" % bv(64, v.start)), parent, pc, hook, heap
        if re.search(r"Vec::<.*>::len$", c):
            v = A(0)
            return BV(64, "(bvsub env_len %s)" % bv(64, v.start)), parent, pc, hook, heap
        m = re.search(r"<std::vec::Vec<.*> as Index(Mut)?<usize>>::index(_mut)?$", c)
        if m:
            v, i = A(0), A(1)
            mm = re.search(r"bv(\d+) 64", i.s)
            if v.kind != "vec" or not mm:
                raise Unsupported("vector index")
            k = int(mm.group(1))
            self._bad(parent, "(and %s (not (bvult %s env_len)))" % (pc, bv(64, k)), "panic: index out of bounds (element %d)" % k)
            npc = "(and %s (bvult %s env_len))" % (pc, bv(64, k)) if pc != "true" else "(bvult %s env_len)" % bv(64, k)
            return Val("elem", index=k), parent, npc, hook, heap
        if re.search(r"<std::vec::Vec<.*> as Index<std::ops::RangeFrom<usize>>>::index$", c):
            v, r = A(0), A(1)
            self._bad(parent, "(and %s (bvugt %s env_len))" % (pc, bv(64, r.start)), "panic: slice start out of range")
            return Val("vec", start=r.start), parent, pc, hook, heap
        if re.search(r"std::mem::take::<.*OwnedTerm>$|<(erltf::)?OwnedTerm as Clone>::clone$", c):
            return A(0), parent, pc, hook, heap
        if re.search(r"OwnedTerm::as_integer$", c) and A(0).kind == "elem":
            k = A(0).index
            return (Val("opt", some=fresh("env_isint_%d" % k, "Bool"), val=BV(64, fresh("env_val_%d" % k, "(_ BitVec 64)")), some_idx=1, some_name="Some"),
                    parent, pc, hook, heap)
        if re.search(r"RangeInclusive::<i64>::contains::<i64>$", c):
            lo, hi = self.promoted_range
            x = A(1)
            return BOOL("(and (bvsge %s %s) (bvsle %s %s))" % (x.s, bv(64, lo), x.s, bv(64, hi))), parent, pc, hook, heap
        if re.search(r"ControlMessageType::from_u8$", c):
            x = A(0)
            conds, disc = [], bv(64, 0)
            for tag, variant in self.tag_table:
                cnd = "(= %s %s)" % (x.s, bv(8, tag))
                conds.append(cnd)
                disc = "(ite %s %s %s)" % (cnd, bv(64, self.repr_of[variant]), disc)
            return (Val("opt", some="(or false %s)" % " ".join(conds), val=Val("cenum", disc=disc), some_idx=1, some_name="Some"), parent, pc, hook, heap)
        if re.search(r"fmt::rt::Argument::<'_>::new_|Arguments::<'_>::new|^format$|alloc::fmt::format|must_use::<|as ToString>::to_string$", c):
            return Val("opaque", tag="fmt"), parent, pc, hook, heap
        m = re.match(r"^<(?:types::)?External(Pid|Port|Reference) as Clone>::clone$", c)
        if m:   # derived Clone copies every field (the E1 harnesses c10_conversion_preserves__*_clone decide that on the compiled code)
            v = A(0)
            if v.kind != "ident":
                raise Unsupported("clone of " + repr(v))
            return v, parent, pc, hook, heap
        m = re.match(r"^(?:types::)?External(Pid|Port|Reference)::(new|with_local_ext_bytes)$", c)
        if m and getattr(self, "ident_mode", False):
            return (Val("ident", what=m.group(1), origin="rebuilt", local=(m.group(2) == "with_local_ext_bytes")), parent, pc, hook, heap)
        if re.search(r"<std::vec::Vec<u32> as Clone>::clone$|<Vec<u32> as Clone>::clone$|<std::option::Option<.*Bytes> as Clone>::clone$|<Option<.*Bytes> as Clone>::clone$", c):
            return A(0), parent, pc, hook, heap
        if re.search(r"<erltf::Atom as Clone>::clone$|<Atom as Clone>::clone$|<types::Atom as Clone>::clone$", c):
            return Val("opaque", tag="atom"), parent, pc, hook, heap
        if re.search(r"ExternalPid::new$", c):
            return Val("record", name="pid", fields=[A(1), A(2), A(3)]), parent, pc, hook, heap
        if re.search(r"ExternalReference::new$", c):
            ids = A(2)
            if ids.kind != "array":
                raise Unsupported("reference ids " + repr(ids))
            return Val("record", name="ref", fields=[A(1)] + ids.items), parent, pc, hook, heap
        if re.search(r"^Box::<\[.*\]>::new_uninit$|^std::boxed::Box::<\[.*\]>::new_uninit$", c):
            self.box_counter += 1
            return Val("box", id=self.box_counter), parent, pc, hook, heap
        if re.search(r"box_assume_init_into_vec_unsafe", c):
            b = A(0)
            if b.kind != "box" or b.id not in heap:
                raise Unsupported("vec from uninitialised box")
            return heap[b.id], parent, pc, hook, heap
        raise Unsupported("call to " + c)


def simplify_const(c):
    c = c.strip()
    m = re.match(r"^\(= \(_ bv(\d+) (\d+)\) \(_ bv(\d+) (\d+)\)\)$", c)
    if m:
        return "true" if m.group(1) == m.group(3) else "false"
    m = re.match(r"^\(not \(= \(_ bv(\d+) (\d+)\) \(_ bv(\d+) (\d+)\)\)\)$", c)
    if m:
        return "false" if m.group(1) == m.group(3) else "true"
    if c == "(not false)":
        return "true"
    if c == "(not true)":
        return "false"
    return c
