"""Symbolic execution of *stateful, sequential* MIR (structs behind `&mut self`, loops, closures, std containers).

Complement of symex.py (which handles loop-free scalar code with visible concurrent actions).  The interpreter runs the MIR of
the working tree statement by statement on a heap of Python objects whose scalar leaves are SMT-LIB bit-vector / Bool
expressions.  Control flow that depends on a symbolic value is a *choice point*: the solver is asked which alternatives are
feasible under the path condition, the run continues with the first one and the others are queued as decision prefixes; a
path is re-executed from the start for every prefix (stateless exploration), so no state is ever copied.

Containers of the standard library are *modelled* (the model is part of the claim and listed in the evidence):
  Vec<T>            a Python list of element values; lengths are concrete on every path (a symbolic length is concretised
                    by a choice point over the values the solver admits, up to `max_alloc`; more => Unsupported)
  HashMap<K,V>      an insertion-ordered association list; a lookup with a symbolic key is a choice point per entry;
                    iteration order (drain) = insertion order
  Vec<u8> payloads  sequences of opaque chunks (token expression, length expression)
  Option/Result     enums with a concrete discriminant on every path
Anything outside the tables raises Unsupported => the check is inconclusive, never a pass."""
import re
import subprocess

from .mir import split_top
from .symex import Val, BV, BOOL, bv, WIDTH, Unsupported, Exec as _SymexExec, BUILTIN_CONSTS


class Panic(Exception):
    pass


class Infeasible(Exception):
    pass


# ------------------------------------------------------------------------------------------------ solver
class Solver:
    """one z3 process, push/pop per query"""

    def __init__(self, timeout_s=60):
        self.p = subprocess.Popen(["z3", "-in", "-t:%d" % (timeout_s * 1000)], stdin=subprocess.PIPE, stdout=subprocess.PIPE,
                                  stderr=subprocess.STDOUT, text=True, bufsize=1)
        self.decls = {}
        self.base = []
        self.queries = 0
        self.seconds = 0.0
        self._send("(set-option :print-success false)")

    def _send(self, s):
        self.p.stdin.write(s + "\n")
        self.p.stdin.flush()

    def declare(self, name, sort):
        if name not in self.decls:
            self.decls[name] = sort
            self._send("(declare-const %s %s)" % (name, sort))

    def assume(self, smt):
        self.base.append(smt)
        self._send("(assert %s)" % smt)

    def check(self, conds, want_model=None):
        import time
        t0 = time.time()
        self.queries += 1
        self._send("(push)")
        for c in conds:
            if c != "true":
                self._send("(assert %s)" % c)
        self._send("(check-sat)")
        r = self.p.stdout.readline().strip()
        while r.startswith("(error") is False and r not in ("sat", "unsat", "unknown", "timeout"):
            if r == "" and self.p.poll() is not None:
                raise Unsupported("solver died")
            r = self.p.stdout.readline().strip()
        if r.startswith("(error"):
            self._send("(pop)")
            raise Unsupported("solver error: " + r)
        model = None
        if r == "sat" and want_model:
            self._send("(get-value (%s))" % " ".join(want_model))
            txt = ""
            depth = 0
            while True:
                ln = self.p.stdout.readline()
                txt += ln
                depth += ln.count("(") - ln.count(")")
                if depth <= 0 and txt.strip():
                    break
            model = {}
            for m in re.finditer(r"\((\w+) (#x[0-9a-fA-F]+|#b[01]+|true|false|\(_ bv\d+ \d+\))\)", txt):
                v = m.group(2)
                if v.startswith("#x"):
                    v = int(v[2:], 16)
                elif v.startswith("#b"):
                    v = int(v[2:], 2)
                elif v.startswith("(_ bv"):
                    v = int(v.split()[1][2:])
                else:
                    v = v == "true"
                model[m.group(1)] = v
        self._send("(pop)")
        self.seconds += time.time() - t0
        return r, model

    def close(self):
        try:
            self._send("(exit)")
            self.p.wait(timeout=5)
        except Exception:
            self.p.kill()


# ------------------------------------------------------------------------------------------------ values
def OPAQUE(tag):
    return Val("opaque", tag=tag)


def is_lit(v):
    return v.kind == "bv" and re.match(r"^\(_ bv\d+ \d+\)$", v.s) is not None or v.kind == "bool" and v.s in ("true", "false")


def lit_int(v):
    m = re.match(r"^\(_ bv(\d+) \d+\)$", v.s)
    return int(m.group(1)) if m else None


def clone_val(v):
    k = v.kind
    if k in ("bv", "bool", "opaque", "str", "ref", "vacant", "box", "slice", "takeparser", "digest", "fmtarg", "fmtargs", "fnitem"):
        return v
    if k == "u8buf":
        return Val("u8buf", items=list(v.items))
    if k in ("struct", "enum"):
        n = Val(k, **{a: b for a, b in v.__dict__.items() if a not in ("kind", "fields")})
        n.fields = [clone_val(x) for x in v.fields]
        return n
    if k == "vec":
        return Val("vec", items=[clone_val(x) for x in v.items])
    if k == "bytes":
        return Val("bytes", chunks=list(v.chunks))
    if k == "map":
        return Val("map", entries=[[clone_val(a), clone_val(b)] for a, b in v.entries])
    if k == "iter":
        return Val("iter", items=[clone_val(x) for x in v.items], pos=[v.pos[0]], sub=v.sub)
    raise Unsupported("clone of " + k)


def mk_enum(ename, vname, idx, fields):
    return Val("enum", ename=ename, vname=vname, idx=idx, fields=list(fields))


def SOME(x):
    return mk_enum("Option", "Some", 1, [x])


def NONE():
    return mk_enum("Option", "None", 0, [])


KNOWN_ENUMS = {"Option": {"None": 0, "Some": 1}, "Result": {"Ok": 0, "Err": 1}, "Entry": {"Occupied": 0, "Vacant": 1},
               "ControlFlow": {"Continue": 0, "Break": 1}, "Ordering": {"Less": -1, "Equal": 0, "Greater": 1}}


def eq_expr(a, b):
    """structural equality of two values as an SMT Bool"""
    if a.kind == "ref":
        a = a.lst[a.idx]
    if b.kind == "ref":
        b = b.lst[b.idx]
    if a.kind == "bv" and b.kind == "bv":
        return "(= %s %s)" % (a.s, b.s) if a.s != b.s else "true"
    if a.kind == "bool" and b.kind == "bool":
        return "(= %s %s)" % (a.s, b.s)
    if a.kind == "struct" and b.kind == "struct" and len(a.fields) == len(b.fields):
        cs = [eq_expr(x, y) for x, y in zip(a.fields, b.fields)]
        cs = [c for c in cs if c != "true"]
        return "true" if not cs else (cs[0] if len(cs) == 1 else "(and %s)" % " ".join(cs))
    if a.kind == "enum" and b.kind == "enum":
        if a.idx != b.idx:
            return "false"
        cs = [eq_expr(x, y) for x, y in zip(a.fields, b.fields)]
        cs = [c for c in cs if c != "true"]
        return "true" if not cs else "(and true %s)" % " ".join(cs)
    if a.kind == "str" and b.kind == "str":
        return "true" if a.text == b.text else "false"
    if a.kind == "bytes" and b.kind == "bytes":
        if len(a.chunks) != len(b.chunks):
            return "false"
        cs = ["(= %s %s)" % (x[0], y[0]) for x, y in zip(a.chunks, b.chunks) if x[0] != y[0]]
        return "true" if not cs else "(and true %s)" % " ".join(cs)
    if a.kind == "vec" and b.kind == "vec":
        if len(a.items) != len(b.items):
            return "false"
        cs = [eq_expr(x, y) for x, y in zip(a.items, b.items)]
        if "false" in cs:
            return "false"
        cs = [c for c in cs if c != "true"]
        return "true" if not cs else "(and true %s)" % " ".join(cs)
    if a.kind == "map" and b.kind == "map":
        raise Unsupported("equality of maps")
    if a.kind != b.kind:
        return "false"
    raise Unsupported("equality of %s and %s" % (a.kind, b.kind))


# ------------------------------------------------------------------------------------------------ places
def _match_paren(s, i):
    d = 0
    for j in range(i, len(s)):
        if s[j] == "(":
            d += 1
        elif s[j] == ")":
            d -= 1
            if d == 0:
                return j
    raise Unsupported("unbalanced place " + s)


def parse_place(s):
    s = s.strip()
    if re.fullmatch(r"_\d+", s):
        return ("local", s)
    m = re.match(r"^(.*)\[(_\d+)\]$", s)
    if m:
        return ("index", parse_place(m.group(1)), m.group(2))
    if s.startswith("(") and _match_paren(s, 0) == len(s) - 1:
        inner = s[1:-1].strip()
        if inner.startswith("*"):
            return ("deref", parse_place(inner[1:]))
        if inner.startswith("("):
            j = _match_paren(inner, 0)
            head, rest = inner[:j + 1], inner[j + 1:]
        else:
            m = re.match(r"^_\d+", inner)
            if not m:
                raise Unsupported("place " + s)
            head, rest = m.group(0), inner[m.end():]
        m = re.match(r"^\.(\d+): ", rest)
        if m:
            return ("field", parse_place(head), int(m.group(1)))
        m = re.match(r"^ as (\w+)$", rest)
        if m:
            return ("downcast", parse_place(head), m.group(1))
    raise Unsupported("place " + s)


class BoxCell(list):
    """storage behind Box::new_uninit(): every wrapper projection under it (MaybeUninit/ManuallyDrop/...) is transparent"""


class Frame:
    def __init__(self, fn):
        self.fn = fn
        self.locals = {}      # "_3" -> [value]   (one-element list = cell)


class Interp:
    def __init__(self, fns, consts, solver, resolver, max_alloc=8, max_steps=200000):
        self.fns = fns                # name -> mir.Fn
        self.consts = dict(BUILTIN_CONSTS)
        self.consts.update(consts)
        self.solver = solver
        self.resolve_fn = resolver    # callee text -> mir.Fn | None
        self.max_alloc = max_alloc
        self.max_steps = max_steps
        self.assumptions_used = set()
        self.calls_seen = {}
        self.clock_w = 64
        self.enums = {}          # user enums: name -> {variant: discriminant}
        self.user_stubs = []     # [(regex, fn(interp, callee, args) -> Val)]
        self.reset([])

    # ------------------------------------------------------------------ path management
    def reset(self, prefix):
        self.prefix = list(prefix)
        self.trace = []
        self.pc = []
        self.pending = []       # alternative prefixes discovered on this run
        self.steps = 0
        self.path_syms = []      # fresh symbols created on this run, in order of creation
        self.nfresh = getattr(self, "nfresh", 0)

    def clock_read(self):
        """the clock is an environment input: an arbitrary non-decreasing 64-bit instant (below 2^62) per reading"""
        if not getattr(self, "clock_on", False):
            return OPAQUE("instant")
        w = self.clock_w
        n = self.fresh("now", "(_ BitVec %d)" % w)
        self.pc.append("(and (bvuge %s %s) (bvult %s %s))" % (n, self.clock_last, n, bv(w, 1 << (w - 2))))
        self.clock_last = n
        return BV(w, n)

    def fresh(self, hint, sort):
        self.nfresh += 1
        n = "hx_%s_%d" % (hint, self.nfresh)
        self.path_syms.append(n)
        self.solver.declare(n, sort)
        return n

    def choose(self, conds, what=""):
        """conds: SMT Bools, mutually exclusive and exhaustive under the path condition.  Returns the index taken."""
        live = [i for i, c in enumerate(conds) if c != "false"]
        if len(live) == 1 and conds[live[0]] == "true":
            return live[0]
        pos = len(self.trace)
        if pos < len(self.prefix):
            i = self.prefix[pos]
        else:
            feas = []
            for i in live:
                r, _ = self.solver.check(self.pc + [conds[i]])
                if r != "unsat":
                    feas.append(i)
            if not feas:
                raise Infeasible("no feasible alternative at " + what)
            i = feas[0]
            for j in feas[1:]:
                self.pending.append(self.trace + [j])
        self.trace.append(i)
        if conds[i] != "true":
            self.pc.append(conds[i])
        return i

    def concretise(self, v, what, lo=0, hi=None):
        """a symbolic bit-vector that sizes or indexes a container: choice point over its feasible values"""
        if is_lit(v):
            return lit_int(v)
        pos = len(self.trace)
        if pos < len(self.prefix):
            k = self.prefix[pos]
            self.trace.append(k)
            self.pc.append("(= %s %s)" % (v.s, bv(v.w, k)))
            return k
        vals = []
        excl = []
        probe = "(= hx_probe %s)" % (v.s if v.w == 64 else "((_ zero_extend %d) %s)" % (64 - v.w, v.s))
        while True:
            r, m = self.solver.check(self.pc + excl + [probe], want_model=["hx_probe"])
            if r == "unsat":
                break
            if r != "sat" or m is None or "hx_probe" not in m:
                raise Unsupported("cannot enumerate the values of " + what)
            k = m["hx_probe"]
            vals.append(k)
            excl.append("(not (= %s %s))" % (v.s, bv(v.w, k)))
            if len(vals) > self.max_alloc + 1:
                raise Unsupported("%s has more than %d feasible values (unbounded container size/index)" % (what, self.max_alloc + 1))
        if not vals:
            raise Infeasible("no value for " + what)
        vals.sort()
        for k in vals[1:]:
            self.pending.append(self.trace + [k])
        self.trace.append(vals[0])
        self.pc.append("(= %s %s)" % (v.s, bv(v.w, vals[0])))
        return vals[0]

    def branch(self, cond, what=""):
        """symbolic Bool -> concrete bool via a choice point"""
        if cond == "true":
            return True
        if cond == "false":
            return False
        return self.choose([cond, "(not %s)" % cond], what) == 0

    # ------------------------------------------------------------------ operands / places
    def const(self, s):
        s = s.strip()
        if s in ("true", "false"):
            return BOOL(s)
        m = re.match(r"^(-?\d+)_(\w+)$", s)
        if m and m.group(2) in WIDTH:
            w = WIDTH[m.group(2)]
            return BV(w, bv(w, int(m.group(1))))
        if s in self.consts:
            v, ty = self.consts[s]
            return BV(WIDTH[ty], bv(WIDTH[ty], v))
        for k, (v, ty) in self.consts.items():
            if k.split("::")[-1] == s.split("::")[-1] and s.split("::")[-1].replace("_", "").isupper():
                return BV(WIDTH[ty], bv(WIDTH[ty], v))
        m = re.match(r'^"(.*)"$', s)
        if m:
            return Val("str", text=m.group(1))
        m = re.match(r'^b"(.*)"$', s)
        if m:
            return Val("str", text=m.group(1), raw=True)
        m = re.match(r"^ZeroSized: (\{closure@.*\})$", s)
        if m:
            return Val("struct", name=m.group(1), fields=[])
        return OPAQUE("const:" + s[:40])

    def lv(self, place, fr):
        """-> (list, index)"""
        k = place[0]
        if k == "local":
            c = fr.locals.get(place[1])
            if c is None:
                c = fr.locals[place[1]] = [None]
            return c, 0
        if k == "deref":
            lst, i = self.lv(place[1], fr)
            r = lst[i]
            if r is not None and r.kind == "box":
                return r.cell, 0
            if r is None or r.kind != "ref":
                raise Unsupported("deref of %r" % (r,))
            return r.lst, r.idx
        if k == "field":
            lst, i = self.lv(place[1], fr)
            v = lst[i]
            if isinstance(lst, BoxCell) or (v is not None and v.kind == "box"):
                return lst, i
            if v is None or v.kind not in ("struct", "enum"):
                raise Unsupported("field %d of %r" % (place[2], v))
            if place[2] >= len(v.fields):
                raise Unsupported("field index %d out of range for %s" % (place[2], getattr(v, "name", v.kind)))
            return v.fields, place[2]
        if k == "index":
            lst, i = self.lv(place[1], fr)
            v = lst[i]
            ix = fr.locals[place[2]][0]
            n = self.concretise(ix, "array index")
            if v is not None and v.kind == "u8buf":
                if n >= len(v.items) or any(not isinstance(x, Val) for x in v.items[:n + 1]):
                    raise Unsupported("index %d into a byte buffer past a variable-length chunk" % n)
                return v.items, n
            if v is not None and v.kind == "vec":
                return v.items, n
            raise Unsupported("index into %r" % (v,))
        if k == "downcast":
            lst, i = self.lv(place[1], fr)
            v = lst[i]
            if v is None or v.kind != "enum" or v.vname != place[2]:
                raise Unsupported("downcast of %r to %s" % (v, place[2]))
            return lst, i
        raise Unsupported("place kind " + k)

    def read(self, place, fr):
        lst, i = self.lv(place, fr)
        v = lst[i]
        if v is None:
            raise Unsupported("read of uninitialised place %r" % (place,))
        return v

    def operand(self, s, fr):
        s = s.strip()
        if s.startswith("const "):
            return self.const(s[6:])
        m = re.match(r"^(copy|move) (.*)$", s)
        if m:
            v = self.read(parse_place(m.group(2)), fr)
            return clone_val(v) if m.group(1) == "copy" else v
        if re.match(r"^[A-Za-z_][\w:<>', ]*$", s) and "::" in s:
            return Val("fnitem", path=s)        # a function item passed as a value (e.g. `.map(Self::to_owned)`)
        raise Unsupported("operand " + s)

    # ------------------------------------------------------------------ rvalues
    def rvalue(self, rhs, fr):
        rhs = rhs.strip()
        m = re.match(r"^(AddWithOverflow|SubWithOverflow|MulWithOverflow|Add|Sub|Mul|Rem|Div|Eq|Ne|Lt|Le|Gt|Ge|BitAnd|BitOr|BitXor|AddUnchecked|SubUnchecked)\((.*)\)$", rhs)
        if m:
            a, b = [self.operand(x, fr) for x in split_top(m.group(2))]
            r = _SymexExec.binop(None, m.group(1), a, b, False)
            if r.kind == "tuple":
                return Val("struct", name="(ovf)", fields=[self.fold(x) for x in r.items])
            if m.group(1) == "Div" and r.kind == "bv":
                # floor(floor(x / a) / b) == floor(x / (a*b)) for unsigned x: keeps repeated division by a constant out of the bit-blaster
                mm = re.match(r"^\(bvudiv \(bvudiv (.*) \(_ bv(\d+) (\d+)\)\) \(_ bv(\d+) \d+\)\)$", r.s)
                if mm and int(mm.group(2)) * int(mm.group(4)) < (1 << int(mm.group(3))) and mm.group(1).count("(") == mm.group(1).count(")"):
                    r = BV(r.w, "(bvudiv %s %s)" % (mm.group(1), bv(r.w, int(mm.group(2)) * int(mm.group(4)))))
            return self.fold(r)
        m = re.match(r"^(Shl|Shr|ShlUnchecked|ShrUnchecked)\((.*)\)$", rhs)
        if m:
            a, b = [self.operand(x, fr) for x in split_top(m.group(2))]
            y = b.s if b.w == a.w else ("((_ zero_extend %d) %s)" % (a.w - b.w, b.s) if b.w < a.w else "((_ extract %d 0) %s)" % (a.w - 1, b.s))
            return self.fold(BV(a.w, "(%s %s %s)" % ("bvshl" if m.group(1).startswith("Shl") else "bvlshr", a.s, y)))
        m = re.match(r"^PtrMetadata\((.*)\)$", rhs)
        if m:
            v = self.deref(self.operand(m.group(1), fr))
            return self.length_of(v)
        m = re.match(r"^Not\((.*)\)$", rhs)
        if m:
            a = self.operand(m.group(1), fr)
            return self.fold(BOOL("(not %s)" % a.s)) if a.kind == "bool" else BV(a.w, "(bvnot %s)" % a.s)
        m = re.match(r"^(.*) as (\w+) \(IntToInt\)$", rhs)
        if m:
            a = self.operand(m.group(1), fr)
            w = WIDTH.get(m.group(2))
            if a.kind != "bv" or w is None:
                raise Unsupported("cast " + rhs)
            if w == a.w:
                return a
            if w < a.w:
                return self.fold(BV(w, "((_ extract %d 0) %s)" % (w - 1, a.s)))
            return self.fold(BV(w, "((_ zero_extend %d) %s)" % (w - a.w, a.s)))
        m = re.match(r"^(.*) as .* \((Transmute|PtrToPtr|PointerCoercion\(.*\))\)$", rhs)
        if m:
            return self.operand(m.group(1), fr)
        m = re.match(r"^discriminant\((.*)\)$", rhs)
        if m:
            v = self.read(parse_place(m.group(1)), fr)
            if v.kind != "enum" or v.idx is None:
                raise Unsupported("discriminant of %r" % (v,))
            return BV(64, bv(64, v.idx))
        m = re.match(r"^&(?:mut |raw const \(fake\) |raw const |raw mut )?(.*)$", rhs)
        if m:
            lst, i = self.lv(parse_place(m.group(1)), fr)
            return Val("ref", lst=lst, idx=i)
        m = re.match(r"^no_retag (copy|move) (.*)$", rhs)
        if m:
            return self.operand("%s %s" % (m.group(1), m.group(2)), fr)
        if re.match(r"^(copy|move|const) ", rhs):
            return self.operand(rhs, fr)
        m = re.match(r"^\[(.*); (\d+)\]$", rhs)
        if m:
            e = self.operand(m.group(1), fr)
            return Val("vec", items=[clone_val(e) for _ in range(int(m.group(2)))])
        m = re.match(r"^\[(.*)\]$", rhs)
        if m:
            return Val("vec", items=[self.operand(x, fr) for x in split_top(m.group(1)) if x.strip()])
        m = re.match(r"^\((.*)\)$", rhs)
        if m:
            return Val("struct", name="(tuple)", fields=[self.operand(x, fr) for x in split_top(m.group(1)) if x.strip()])
        m = re.match(r"^(\{closure@.*?\}) \{ (.*) \}$", rhs)
        if m:
            return Val("struct", name=m.group(1), fields=[self.operand(p.split(":", 1)[1], fr) for p in split_top(m.group(2))])
        m = re.match(r"^((?:[\w<>', &]+::)*)(\w+)(?:::<.*>)?::(\w+)(?:\((.*)\))?$", rhs)
        if m and m.group(2) in KNOWN_ENUMS and m.group(3) in KNOWN_ENUMS[m.group(2)]:
            flds = [self.operand(x, fr) for x in split_top(m.group(4))] if m.group(4) else []
            return mk_enum(m.group(2), m.group(3), KNOWN_ENUMS[m.group(2)][m.group(3)], flds)
        if m and m.group(2) in self.enums and m.group(3) in self.enums[m.group(2)]:
            flds = [self.operand(x, fr) for x in split_top(m.group(4))] if m.group(4) else []
            return mk_enum(m.group(2), m.group(3), self.enums[m.group(2)][m.group(3)], flds)
        m = re.match(r"^((?:\w+::)*\w+(?:::<.*?>)?) \{ (.*) \}$", rhs)
        if m:
            return Val("struct", name=m.group(1), fields=[self.operand(p.split(":", 1)[1], fr) for p in split_top(m.group(2))])
        m = re.match(r"^((?:\w+::)*[A-Z]\w*)::([A-Z]\w*)\((.*)\)$", rhs)
        if m:       # variant of an enum we do not model (errors): opaque payload holder
            return mk_enum(m.group(1), m.group(2), None, [self.operand(x, fr) for x in split_top(m.group(3))])
        m = re.match(r"^((?:\w+::)*[A-Z]\w*)\((.*)\)$", rhs)
        if m:       # tuple struct
            return Val("struct", name=m.group(1), fields=[self.operand(x, fr) for x in split_top(m.group(2))])
        m = re.match(r"^(?:std::cmp::Ordering::)?(Less|Equal|Greater)$", rhs)
        if m:
            return mk_enum("Ordering", m.group(1), KNOWN_ENUMS["Ordering"][m.group(1)], [])
        if re.match(r"^(?:\w+::)*[A-Z]\w*$", rhs):      # unit variant of an enum we do not model (error kinds)
            return OPAQUE("unit_variant:" + rhs)
        m = re.match(r"^((?:\w+::)+)(?:<.*>::)?([A-Z]\w*) \{ (.*) \}$", rhs)
        if m and m.group(1).rstrip(":").split("::")[-1][:1].isupper():     # struct-like variant of an enum we do not model
            return mk_enum(m.group(1).rstrip(":"), m.group(2), None, [self.operand(p.split(":", 1)[1], fr) for p in split_top(m.group(3))])
        m = re.match(r"^((?:\w+::)+)<.*>::([A-Z]\w*)\((.*)\)$", rhs)
        if m:       # generic enum we do not model (nom::Err::<..>::Failure(e)): opaque payload holder
            return mk_enum(m.group(1).rstrip(":"), m.group(2), None, [self.operand(x, fr) for x in split_top(m.group(3))])
        raise Unsupported("rvalue " + rhs)

    def fold(self, v):
        """constant folding of closed bit-vector / Bool terms (no solver)"""
        if v.kind == "bool" and v.s not in ("true", "false"):
            r = _eval_closed(v.s)
            if r is not None:
                return BOOL("true" if r else "false")
        if v.kind == "bv" and not is_lit(v):
            r = _eval_closed(v.s)
            if r is not None and not isinstance(r, bool):
                return BV(v.w, bv(v.w, r))
        return v

    # ------------------------------------------------------------------ execution
    def call_fn(self, fn, args):
        fr = Frame(fn)
        params = re.findall(r"(_\d+): ", fn.header.split(") ->")[0].split("(", 1)[1]) if "(" in fn.header else []
        # parameter names in order of appearance in the header
        params = []
        hdr = fn.header
        inner = hdr[hdr.index("(") + 1:]
        for a in split_top(inner[:_find_close(inner)]):
            mm = re.match(r"\s*(_\d+): ", a)
            if mm:
                params.append(mm.group(1))
        if len(params) != len(args):
            raise Unsupported("arity mismatch calling %s: %d vs %d" % (fn.name, len(params), len(args)))
        for p, a in zip(params, args):
            fr.locals[p] = [a]
        self.calls_seen[fn.name] = self.calls_seen.get(fn.name, 0) + 1
        bb = "bb0"
        while True:
            stmts, term, cleanup = fn.blocks[bb]
            if cleanup:
                raise Unsupported("reached cleanup block " + bb)
            for st in stmts:
                self.steps += 1
                if self.steps > self.max_steps:
                    raise Unsupported("step budget exhausted (unbounded loop?)")
                if re.match(r"^(StorageLive|StorageDead|nop|FakeRead|PlaceMention|Retag|AscribeUserType|Coverage)", st):
                    continue
                eq = _split_assign(st)
                if eq is None:
                    raise Unsupported("statement " + st)
                dst, rhs = eq
                val = self.rvalue(rhs, fr)
                lst, i = self.lv(parse_place(dst), fr)
                lst[i] = val
            t = term
            m = re.match(r"^goto -> (bb\d+);$", t)
            if m:
                bb = m.group(1)
                continue
            if t == "return;":
                r = fr.locals.get("_0")
                if r is None or r[0] is None:
                    if re.search(r"-> \(\)\s*\{?$", fn.header) or "->" not in fn.header:
                        return OPAQUE("unit")
                    raise Unsupported("return without a value in " + fn.name)
                return r[0]
            if t == "unreachable;":
                raise Panic("unreachable reached in " + fn.name)
            m = re.match(r"^switchInt\((.*)\) -> \[(.*)\];$", t)
            if m:
                v = self.operand(m.group(1), fr)
                arms = []
                for a in m.group(2).split(","):
                    k, tgt = [x.strip() for x in a.split(":")]
                    arms.append((k, tgt))
                if v.kind == "bool":
                    if v.s in ("true", "false"):
                        val = 1 if v.s == "true" else 0
                        bb = _pick_arm(arms, val)
                        continue
                    take_true = self.branch(v.s, "switchInt in " + fn.name)
                    bb = _pick_arm(arms, 1 if take_true else 0)
                    continue
                if is_lit(v):
                    bb = _pick_arm(arms, lit_int(v))
                    continue
                conds, tg = [], []
                listed = []
                for k, tgt in arms:
                    if k == "otherwise":
                        conds.append("(and true %s)" % " ".join("(not (= %s %s))" % (v.s, bv(v.w, int(x))) for x in listed))
                    else:
                        listed.append(k)
                        conds.append("(= %s %s)" % (v.s, bv(v.w, int(k))))
                    tg.append(tgt)
                bb = tg[self.choose(conds, "switchInt in " + fn.name)]
                continue
            m = re.match(r"^assert\((.*?), \"(.*?)\".*\) -> \[success: (bb\d+), unwind.*\];$", t)
            if m:
                c = m.group(1).strip()
                neg = c.startswith("!")
                v = self.operand(c[1:] if neg else c, fr)
                ok = "(not %s)" % v.s if neg else v.s
                ok = self.fold(BOOL(ok)).s
                if ok == "(not false)":
                    ok = "true"
                if ok == "(not true)":
                    ok = "false"
                if not self.branch(ok, "assert in " + fn.name):
                    raise Panic("panic: " + m.group(2) + " in " + fn.name.split("::")[-1])
                bb = m.group(3)
                continue
            m = re.match(r"^drop\((.*)\) -> \[return: (bb\d+), unwind.*\];$", t)
            if m:
                bb = m.group(2)
                continue
            m = re.match(r"^(.*) -> \[return: (bb\d+), unwind.*\];$", t)
            if m and m.group(1).endswith(")"):
                head, nxt = m.group(1), m.group(2)
                depth, k = 0, len(head) - 1
                while k >= 0:
                    if head[k] == ")":
                        depth += 1
                    elif head[k] == "(":
                        depth -= 1
                        if depth == 0:
                            break
                    k -= 1
                args_txt, pre = head[k + 1:-1], head[:k]
                eq = _split_assign(pre + ";")
                if eq is not None:
                    dst, callee = eq
                else:
                    dst, callee = None, pre.strip()
                argv = [self.operand(a, fr) for a in split_top(args_txt) if a.strip()]
                res = self.call(callee.strip(), argv)
                if dst:
                    lst, i = self.lv(parse_place(dst), fr)
                    lst[i] = res
                bb = nxt
                continue
            raise Unsupported("terminator " + t)

    # ------------------------------------------------------------------ calls
    def call(self, c, a):
        self.steps += 1
        target = self.resolve_fn(c)
        if target is not None:
            return self.call_fn(target, a)
        return self.stub(c, a)

    def length_of(self, v):
        if v.kind == "vec":
            return BV(64, bv(64, len(v.items)))
        if v.kind == "bytes":
            e = bv(64, 0)
            for _tok, ln in v.chunks:
                e = "(bvadd %s %s)" % (e, ln)
            return self.fold(BV(64, e))
        if v.kind == "slice":
            return BV(64, v.len)
        if v.kind == "u8buf":
            n, sym = 0, []
            for x in v.items:
                if isinstance(x, Val):
                    n += 1
                else:
                    sym.append(x[2])
            e = bv(64, n)
            for ln in sym:
                e = "(bvadd %s %s)" % (e, ln)
            return self.fold(BV(64, e))
        raise Unsupported("length of " + v.kind)

    def call_callable(self, cl, args):
        """closures take (&closure, args...); function items take the arguments only"""
        c = cl.lst[cl.idx] if cl.kind == "ref" else cl
        if c.kind == "fnitem":
            f = self.resolve_fn(c.path) or self.resolve_fn(re.sub(r"::<[^>]*>", "", c.path))
            if f is None:
                raise Unsupported("function item " + c.path)
            return self.call_fn(f, list(args))
        return self.call_fn(self.closure_fn(c), [Val("ref", lst=[c], idx=0)] + list(args))

    def closure_fn(self, cl):
        name = getattr(cl, "name", None)
        if cl.kind == "ref":
            name = getattr(cl.lst[cl.idx], "name", None)
        if not name or not name.startswith("{closure@"):
            raise Unsupported("call of a non-closure %r" % (cl,))
        for f in self.fns.values():
            if name in f.header.split(") ->")[0]:
                return f
        raise Unsupported("closure body not found: " + name)

    def deref(self, v):
        while v.kind == "ref":
            v = v.lst[v.idx]
        return v

    def lookup(self, mp, key, what):
        """index of the entry whose key equals `key`, or None (choice point per entry)"""
        key = self.deref(key)
        conds = [eq_expr(k, key) for k, _v in mp.entries]
        none = "(and true %s)" % " ".join("(not %s)" % c for c in conds)
        none = "true" if not conds else none
        # keys of a map are pairwise distinct (invariant of the model): at most one entry matches
        i = self.choose(conds + [none], what)
        return None if i == len(conds) else i

    def stub(self, c, a):
        D = self.deref
        for rx, f in self.user_stubs:
            if re.search(rx, c):
                r = f(self, c, a)
                if r is not None:      # a user stub may decline (None): the built-in tables are tried next
                    return r
        if re.search(r"^Box::<\[.*\]>::new_uninit$|^std::boxed::Box::<\[.*\]>::new_uninit$", c):
            return Val("box", cell=BoxCell([None]))
        if re.search(r"box_assume_init_into_vec_unsafe", c):
            v = a[0].cell[0]
            if v is None or v.kind != "vec":
                raise Unsupported("vec from an uninitialised box")
            return v
        if re.search(r"HashSet::<.*>::new$", c):
            return Val("map", entries=[])
        if re.search(r"HashSet::<.*>::insert$", c):
            st = D(a[0])
            j = self.lookup(st, a[1], "HashSet::insert")
            if j is None:
                st.entries.append([a[1], OPAQUE("unit")])
                return BOOL("true")
            return BOOL("false")
        if re.search(r"HashSet::<.*>::contains::<", c):
            return BOOL("true" if self.lookup(D(a[0]), a[1], "HashSet::contains") is not None else "false")
        if re.search(r"HashSet::<.*>::(len)$", c):
            return BV(64, bv(64, len(D(a[0]).entries)))
        if re.search(r"HashSet::<.*>::is_empty$", c):
            return BOOL("true" if not D(a[0]).entries else "false")
        if re.search(r"HashSet::<.*>::iter$", c):
            self.assumptions_used.add("HashSet iteration visits elements in insertion order (any order is a legal header; the oracle reads the order back from the output)")
            st = D(a[0])
            return Val("iter", items=[Val("ref", lst=e, idx=0) for e in st.entries], pos=[0], sub=None)
        if re.search(r" as Iterator>::copied::<", c):
            it = a[0]
            return Val("iter", items=[x.lst[x.idx] if x.kind == "ref" else x for x in it.items[it.pos[0]:]], pos=[0], sub=None)
        if re.search(r" as Iterator>::enumerate$", c):
            it = a[0]
            return Val("iter", items=[Val("struct", name="(tuple)", fields=[BV(64, bv(64, k)), x]) for k, x in enumerate(it.items[it.pos[0]:])], pos=[0], sub=None)
        if re.search(r" as Iterator>::any::<", c):
            it = D(a[0])
            f = self.closure_fn(a[1])
            while it.pos[0] < len(it.items):
                x = it.items[it.pos[0]]
                it.pos[0] += 1
                r = self.call_fn(f, [Val("ref", lst=[a[1]], idx=0), x])
                if self.branch(r.s, "Iterator::any predicate"):
                    return BOOL("true")
            return BOOL("false")
        m = re.search(r" as Iterator>::(find|all|position|count)(::<.*>)?$", c)
        if m and D(a[0]).kind == "iter":
            it = D(a[0])
            op = m.group(1)
            if op == "count":
                n = len(it.items) - it.pos[0]
                it.pos[0] = len(it.items)
                return BV(64, bv(64, n))
            f = self.closure_fn(a[1])
            k = 0
            while it.pos[0] < len(it.items):
                x = it.items[it.pos[0]]
                it.pos[0] += 1
                arg = Val("ref", lst=[x], idx=0) if op == "find" else x
                r = self.call_fn(f, [Val("ref", lst=[a[1]], idx=0), arg])
                t = self.branch(r.s, "Iterator::%s predicate" % op)
                if op == "find" and t:
                    return SOME(x)
                if op == "position" and t:
                    return SOME(BV(64, bv(64, k)))
                if op == "all" and not t:
                    return BOOL("false")
                k += 1
            return BOOL("true") if op == "all" else NONE()
        if re.search(r"^<std::ops::Range<usize> as IntoIterator>::into_iter$", c):
            return a[0]
        if re.search(r"^<std::ops::Range<usize> as Iterator>::next$", c):
            r = D(a[0])
            lo, hi = r.fields[0], r.fields[1]
            more = self.fold(BOOL("(bvult %s %s)" % (lo.s, hi.s))).s
            if self.branch(more, "Range::next"):
                r.fields[0] = self.fold(BV(64, "(bvadd %s %s)" % (lo.s, bv(64, 1))))
                return SOME(lo)
            return NONE()
        if re.search(r"^<std::iter::Map<.*> as Iterator>::sum::<usize>$", c):
            mi = a[0]
            it = mi.inner
            f = self.closure_fn(mi.closure)
            e = bv(64, 0)
            while it.pos[0] < len(it.items):
                x = it.items[it.pos[0]]
                it.pos[0] += 1
                r = self.call_fn(f, [Val("ref", lst=[mi.closure], idx=0), x])
                e = "(bvadd %s %s)" % (e, r.s)
            return self.fold(BV(64, e))
        if re.search(r"HashMap::<.*>::get::<", c) and False:
            pass
        if re.search(r"BTreeMap::<.*>::new$", c):
            return Val("map", entries=[])
        if re.search(r"BTreeMap::<.*>::insert$", c):
            self.assumptions_used.add("BTreeMap modelled as an association list: two keys are the same key iff structurally equal (no Integer/Float or "
                                      "other cross-type Ord-equal keys in the harness)")
            mp = D(a[0])
            j = self.lookup(mp, a[1], "BTreeMap::insert")
            if j is None:
                mp.entries.append([a[1], a[2]])
                return NONE()
            old = mp.entries[j][1]
            mp.entries[j][1] = a[2]
            return SOME(old)
        if re.search(r"BTreeMap::<.*>::(get|get_mut)::<", c):
            mp = D(a[0])
            j = self.lookup(mp, a[1], "BTreeMap::get")
            return NONE() if j is None else SOME(Val("ref", lst=mp.entries[j], idx=1))
        if re.search(r"BTreeMap::<.*>::len$", c):
            return BV(64, bv(64, len(D(a[0]).entries)))
        if re.search(r"BTreeMap::<.*>::iter$", c):
            mp = D(a[0])
            self.assumptions_used.add("map iteration order is the insertion order of the model (the laws compare contents as sets)")
            return Val("iter", items=[Val("struct", name="(tuple)", fields=[Val("ref", lst=e, idx=0), Val("ref", lst=e, idx=1)]) for e in mp.entries],
                       pos=[0], sub=None)
        if re.search(r" as Iterator>::map::<", c):
            return Val("mapiter", inner=a[0], closure=a[1])
        if re.search(r"^<std::iter::Map<.*> as Iterator>::collect::<(std::vec::)?Vec<", c) or (re.search(r" as Iterator>::collect::<(std::vec::)?Vec<", c) and a[0].kind == "mapiter"):
            mi = a[0]
            it = mi.inner
            out = []
            while it.pos[0] < len(it.items):
                x = it.items[it.pos[0]]
                it.pos[0] += 1
                out.append(self.call_callable(mi.closure, [x]))
            return Val("vec", items=out)
        # ---- logging / formatting / clock: no semantic effect (assumption listed in the evidence)
        if re.search(r"<Level as PartialOrd<LevelFilter>>::le$", c):
            self.assumptions_used.add("tracing is disabled (every `trace!` guard `Level <= LevelFilter` is false)")
            return BOOL("false")
        if re.search(r"Instant::now$", c):
            return self.clock_read()
        if re.search(r"Instant::elapsed$", c):
            t = D(a[0])
            if t.kind != "bv":
                return OPAQUE("duration")
            now = self.clock_read()
            return BV(now.w, "(bvsub %s %s)" % (now.s, t.s))
        m = re.search(r"<Duration as PartialOrd>::(gt|ge|lt|le)$", c)
        if m:
            x, y = D(a[0]), D(a[1])
            if x.kind != "bv" or y.kind != "bv":
                raise Unsupported("comparison of opaque durations")
            return self.fold(BOOL("(%s %s %s)" % ({"gt": "bvugt", "ge": "bvuge", "lt": "bvult", "le": "bvule"}[m.group(1)], x.s, y.s)))
        if re.search(r"HashMap::<.*>::retain::<", c):
            mp = D(a[0])
            cl = a[1]
            f = self.closure_fn(cl)
            keep = []
            for ent in list(mp.entries):
                r = self.call_fn(f, [Val("ref", lst=[cl], idx=0), Val("ref", lst=ent, idx=0), Val("ref", lst=ent, idx=1)])
                if r.kind != "bool":
                    raise Unsupported("retain predicate returned " + r.kind)
                if self.branch(r.s, "HashMap::retain predicate"):
                    keep.append(ent)
            mp.entries[:] = keep
            return OPAQUE("unit")
        if re.search(r"fmt::rt::Argument::<'_>::new_|Arguments::<'_>::(new|from_str)|^format$|alloc::fmt::format|must_use::<|as ToString>::to_string$", c):
            return OPAQUE("fmt")
        if re.search(r"^<S as Into<SequenceId>>::into$|as Into<(\w+::)*SequenceId>>::into$", c):
            return a[0]
        # ---- byte buffers (BytesMut / Vec<u8> being written): single bytes are 8-bit expressions, opaque chunks keep (token, length)
        if re.search(r"BytesMut::(new|with_capacity)$", c):
            return Val("u8buf", items=[])
        m = re.search(r"<BytesMut as BufMut>::put_(u8|u16|u32|u64|slice)$", c)
        if m:
            b = D(a[0])
            if b.kind != "u8buf":
                raise Unsupported("put on " + b.kind)
            if m.group(1) == "slice":
                src = D(a[1])
                if src.kind == "bytes":
                    b.items.extend(("chunk", tk, ln) for tk, ln in src.chunks)
                elif src.kind == "u8buf":
                    b.items.extend(src.items)
                else:
                    raise Unsupported("put_slice of " + src.kind)
            else:
                w = int(m.group(1)[1:])
                v = a[1]
                for k in range(w // 8 - 1, -1, -1):
                    b.items.append(self.fold(BV(8, "((_ extract %d %d) %s)" % (8 * k + 7, 8 * k, v.s))))
            return OPAQUE("unit")
        if re.search(r"BytesMut::len$", c):
            return self.length_of(D(a[0]))
        if re.search(r"<BytesMut as Deref(Mut)?>::deref(_mut)?$", c):
            return a[0]
        if re.search(r"slice::<impl \[u8\]>::to_vec$|<BytesMut as Into<Vec<u8>>>::into$|BytesMut::freeze$", c):
            return clone_val(D(a[0]))
        if re.search(r"<Arc<str> as Deref>::deref$|core::str::<impl str>::as_bytes$|<std::string::String as Deref>::deref$", c):
            return a[0]
        if re.search(r"core::str::<impl str>::len$|slice::<impl \[u8\]>::len$", c):
            return self.length_of(D(a[0]))
        m = re.search(r"^<(u\d+|usize) as Ord>::(min|max)$|^core::cmp::(min|max)::<(u\d+|usize)>$", c)
        if m:
            op = m.group(2) or m.group(3)
            x, y = a[0], a[1]
            cmpo = "bvule" if op == "min" else "bvuge"
            return self.fold(BV(x.w, "(ite (%s %s %s) %s %s)" % (cmpo, x.s, y.s, x.s, y.s)))
        # ---- comparisons
        m = re.search(r"^<(u\d+|usize|i\d+|isize) as Ord>::cmp$", c)
        if m:
            x, y = D(a[0]), D(a[1])
            sg = m.group(1).startswith("i")
            lt = "(%s %s %s)" % ("bvslt" if sg else "bvult", x.s, y.s)
            eq = "(= %s %s)" % (x.s, y.s)
            lt, eq = self.fold(BOOL(lt)).s, self.fold(BOOL(eq)).s
            k = self.choose([lt, eq, "(and (not %s) (not %s))" % (lt, eq)], "integer comparison")
            return mk_enum("Ordering", ["Less", "Equal", "Greater"][k], [-1, 0, 1][k], [])
        if re.search(r"^std::cmp::Ordering::then_with::<", c):
            o = a[0]
            if o.idx != 0:
                return o
            return self.call_fn(self.closure_fn(a[1]), [a[1]])
        if re.search(r"^std::cmp::Ordering::(then|reverse)$", c):
            o = a[0]
            if c.endswith("reverse"):
                return mk_enum("Ordering", {-1: "Greater", 0: "Equal", 1: "Less"}[o.idx], -o.idx, [])
            return a[1] if o.idx == 0 else o
        if re.search(r"^discriminant::<|^std::mem::discriminant::<", c):
            v = D(a[0])
            if v.kind != "enum" or v.idx is None:
                raise Unsupported("mem::discriminant of %r" % (v,))
            return BV(64, bv(64, v.idx))
        if re.search(r"^<Discriminant<.*> as PartialEq>::(eq|ne)$", c):
            x, y = D(a[0]), D(a[1])
            e = x.s == y.s
            return BOOL("true" if e == c.endswith("::eq") else "false")
        if re.search(r" as Iterator>::zip::<", c):
            x, y = a[0], a[1]
            n = min(len(x.items) - x.pos[0], len(y.items) - y.pos[0])
            return Val("iter", items=[Val("struct", name="(tuple)", fields=[x.items[x.pos[0] + i], y.items[y.pos[0] + i]]) for i in range(n)], pos=[0], sub=None)
        # ---- the `?` operator
        if re.search(r" as Try>::branch$", c):
            v = a[0]
            if v.kind != "enum" or v.ename not in ("Result", "Option"):
                raise Unsupported("Try::branch on %r" % (v,))
            good = (v.ename == "Result" and v.idx == 0) or (v.ename == "Option" and v.idx == 1)
            if good:
                return mk_enum("ControlFlow", "Continue", 0, [v.fields[0]])
            return mk_enum("ControlFlow", "Break", 1, [v])
        if re.search(r" as FromResidual<.*>>::from_residual$", c):
            v = a[0]
            if v.kind == "enum" and v.ename == "Result":
                return mk_enum("Result", "Err", 1, list(v.fields))
            if v.kind == "enum" and v.ename == "Option":
                return NONE()
            raise Unsupported("from_residual of %r" % (v,))
        # ---- mem / clone
        if re.match(r"^std::mem::replace::<", c):
            r = a[0]
            old = r.lst[r.idx]
            r.lst[r.idx] = a[1]
            return old
        if re.match(r"^std::mem::swap::<", c):
            x, y = a[0], a[1]
            x.lst[x.idx], y.lst[y.idx] = y.lst[y.idx], x.lst[x.idx]
            return OPAQUE("unit")
        if re.match(r"^std::mem::take::<", c):
            r = a[0]
            old = r.lst[r.idx]
            if old.kind == "vec":
                new = Val("vec", items=[])
            elif old.kind == "map":
                new = Val("map", entries=[])
            elif old.kind == "bytes":
                new = Val("bytes", chunks=[])
            elif old.kind == "enum" and old.ename == "Option":
                new = NONE()
            elif old.kind == "bv":
                new = BV(old.w, bv(old.w, 0))
            else:
                raise Unsupported("mem::take of " + old.kind)
            r.lst[r.idx] = new
            return old
        if re.search(r" as Clone>::clone$", c):
            return clone_val(D(a[0]))
        if re.match(r"^std::mem::drop::<|^drop::<", c):
            return OPAQUE("unit")
        # ---- integer methods (unsigned)
        m = re.match(r"^core::num::<impl (u\d+|usize)>::(wrapping_add|wrapping_sub|saturating_add|saturating_sub|checked_add|checked_sub|min|max|abs_diff)$", c)
        if m:
            w = WIDTH[m.group(1)]
            x, y = a[0].s, a[1].s
            add, sub = "(bvadd %s %s)" % (x, y), "(bvsub %s %s)" % (x, y)
            ovf, unf = "(bvult %s %s)" % (add, x), "(bvult %s %s)" % (x, y)
            op = m.group(2)
            if op == "wrapping_add":
                return self.fold(BV(w, add))
            if op == "wrapping_sub":
                return self.fold(BV(w, sub))
            if op == "saturating_add":
                return self.fold(BV(w, "(ite %s %s %s)" % (ovf, bv(w, (1 << w) - 1), add)))
            if op == "saturating_sub":
                return self.fold(BV(w, "(ite %s %s %s)" % (unf, bv(w, 0), sub)))
            if op == "min":
                return self.fold(BV(w, "(ite (bvule %s %s) %s %s)" % (x, y, x, y)))
            if op == "max":
                return self.fold(BV(w, "(ite (bvuge %s %s) %s %s)" % (x, y, x, y)))
            if op == "abs_diff":
                return self.fold(BV(w, "(ite (bvuge %s %s) (bvsub %s %s) (bvsub %s %s))" % (x, y, x, y, y, x)))
            bad = self.fold(BOOL(ovf if op == "checked_add" else unf)).s
            if self.branch(bad, op):
                return NONE()
            return SOME(self.fold(BV(w, add if op == "checked_add" else sub)))
        # ---- Option
        m = re.match(r"^(?:std::option::)?Option::<.*?>::(\w+)(?:::<.*>)?$", c)
        if m:
            op = m.group(1)
            if op == "as_ref" or op == "as_mut":
                o = D(a[0])
                return SOME(Val("ref", lst=o.fields, idx=0)) if o.idx == 1 else NONE()
            if op in ("is_some", "is_none"):
                o = D(a[0])
                return BOOL("true" if (o.idx == 1) == (op == "is_some") else "false")
            if op == "take":
                r = a[0]
                old = r.lst[r.idx]
                r.lst[r.idx] = NONE()
                return old
            if op == "unwrap_or":
                o = a[0]
                return o.fields[0] if o.idx == 1 else a[1]
            if op == "map":
                o = a[0]
                if o.idx != 1:
                    return NONE()
                return SOME(self.call_fn(self.closure_fn(a[1]), [a[1], o.fields[0]]))
            if op in ("and_then", "filter"):
                o = a[0]
                if o.idx != 1:
                    return NONE()
                if op == "and_then":
                    return self.call_fn(self.closure_fn(a[1]), [a[1], o.fields[0]])
                keep = self.call_fn(self.closure_fn(a[1]), [Val("ref", lst=[a[1]], idx=0), Val("ref", lst=o.fields, idx=0)])
                return o if self.branch(keep.s, "Option::filter") else NONE()
            if op in ("is_some_and", "is_none_or", "map_or"):
                o = a[0]
                if op == "map_or":
                    return a[1] if o.idx != 1 else self.call_fn(self.closure_fn(a[2]), [a[2], o.fields[0]])
                if o.idx != 1:
                    return BOOL("false" if op == "is_some_and" else "true")
                return self.call_fn(self.closure_fn(a[1]), [a[1], o.fields[0]])
            if op in ("unwrap", "expect"):
                o = a[0]
                if o.idx != 1:
                    raise Panic("panic: called Option::%s on a None value" % op)
                return o.fields[0]
            if op == "unwrap_or_default":
                o = a[0]
                if o.idx == 1:
                    return o.fields[0]
                raise Unsupported("Option::unwrap_or_default of None")
            if op == "unwrap_or_else":
                o = a[0]
                return o.fields[0] if o.idx == 1 else self.call_fn(self.closure_fn(a[1]), [a[1]])
            if op in ("replace", "insert"):
                r = a[0]
                old = r.lst[r.idx]
                r.lst[r.idx] = SOME(a[1])
                return old if op == "replace" else Val("ref", lst=r.lst[r.idx].fields, idx=0)
            if op in ("copied", "cloned"):
                o = a[0]
                return SOME(clone_val(D(o.fields[0]))) if o.idx == 1 else NONE()
            raise Unsupported("Option::" + op)
        if re.search(r"<Option<&FragmentCount> as PartialEq>::(ne|eq)$|<std::option::Option<&.*> as PartialEq>::(ne|eq)$", c):
            x, y = D(a[0]), D(a[1])
            if x.idx != y.idx:
                e = "false"
            elif x.idx == 0:
                e = "true"
            else:
                e = eq_expr(x.fields[0], y.fields[0])
            return self.fold(BOOL(e if c.endswith("::eq") else ("(not %s)" % e if e not in ("true", "false") else ("false" if e == "true" else "true"))))
        # ---- Vec<u8> payloads
        if re.search(r"Vec::<u8>::with_capacity$|Vec::<u8>::new$", c):
            return Val("bytes", chunks=[])
        if re.search(r"Vec::<u8>::len$", c):
            b = D(a[0])
            if b.kind != "bytes":
                raise Unsupported("len of " + b.kind)
            e = bv(64, 0)
            for _tok, ln in b.chunks:
                e = "(bvadd %s %s)" % (e, ln)
            return self.fold(BV(64, e))
        if re.search(r"Vec::<u8>::extend_from_slice$", c):
            dst, src = D(a[0]), D(a[1])
            if dst.kind != "bytes" or src.kind != "bytes":
                raise Unsupported("extend_from_slice on %s/%s" % (dst.kind, src.kind))
            dst.chunks.extend(src.chunks)
            return OPAQUE("unit")
        if re.search(r"<std::vec::Vec<.*> as Deref>::deref$|<Vec<.*> as Deref>::deref$|<std::vec::Vec<.*> as DerefMut>::deref_mut$", c):
            return a[0]
        # ---- Vec<T>
        if re.search(r"Vec::<.*>::new$", c):
            return Val("vec", items=[])
        if re.search(r"^std::vec::from_elem::<", c):
            n = self.concretise(a[1], "vec![elem; n]")
            if n > self.max_alloc:
                raise Unsupported("vec![..; %d] exceeds the modelled size bound %d" % (n, self.max_alloc))
            return Val("vec", items=[clone_val(a[0]) for _ in range(n)])
        if re.search(r"Vec::<.*>::len$", c):
            v = D(a[0])
            if v.kind == "map":
                return BV(64, bv(64, len(v.entries)))
            return BV(64, bv(64, len(v.items)))
        if re.search(r"Vec::<.*>::resize$", c):
            v = D(a[0])
            n = self.concretise(a[1], "Vec::resize length")
            if n > self.max_alloc:
                raise Unsupported("Vec::resize(%d) exceeds the modelled size bound %d" % (n, self.max_alloc))
            if n < len(v.items):
                del v.items[n:]
            else:
                v.items.extend(clone_val(a[2]) for _ in range(n - len(v.items)))
            return OPAQUE("unit")
        if re.search(r"<std::vec::Vec<.*> as Index(Mut)?<usize>>::index(_mut)?$|<Vec<.*> as Index(Mut)?<usize>>::index(_mut)?$", c):
            v = D(a[0])
            n = len(v.items)
            inb = self.fold(BOOL("(bvult %s %s)" % (a[1].s, bv(64, n)))).s
            if not self.branch(inb, "index bound"):
                raise Panic("panic: index out of bounds (len %d)" % n)
            k = self.concretise(a[1], "vector index")
            return Val("ref", lst=v.items, idx=k)
        if re.search(r"Vec::<.*>::push$", c):
            v = D(a[0])
            if v.kind == "bytes":
                raise Unsupported("push of a single byte onto a payload")
            if len(v.items) >= self.max_alloc:
                raise Unsupported("Vec::push beyond the modelled size bound %d" % self.max_alloc)
            v.items.append(a[1])
            return OPAQUE("unit")
        if re.search(r"Vec::<.*>::pop$", c):
            v = D(a[0])
            return SOME(v.items.pop()) if v.items else NONE()
        if re.search(r"Vec::<.*>::is_empty$|slice::<impl \[.*\]>::is_empty$", c):
            v = D(a[0])
            if v.kind == "bytes":
                raise Unsupported("is_empty of a payload")
            return BOOL("true" if not (v.items if v.kind == "vec" else v.entries) else "false")
        if re.search(r"Vec::<.*>::clear$", c):
            del D(a[0]).items[:]
            return OPAQUE("unit")
        if re.search(r"Vec::<.*>::truncate$", c):
            v = D(a[0])
            n = self.concretise(a[1], "Vec::truncate length")
            del v.items[n:]
            return OPAQUE("unit")
        if re.search(r"slice::<impl \[.*\]>::(get|get_mut)::<usize>$", c):
            v = D(a[0])
            inb = self.fold(BOOL("(bvult %s %s)" % (a[1].s, bv(64, len(v.items))))).s
            if not self.branch(inb, "slice::get bound"):
                return NONE()
            return SOME(Val("ref", lst=v.items, idx=self.concretise(a[1], "slice::get index")))
        if re.search(r"slice::<impl \[.*\]>::len$", c):
            return BV(64, bv(64, len(D(a[0]).items)))
        if re.search(r"as Iterator>::rev$|as DoubleEndedIterator>::rev$", c):
            it = a[0]
            if it.kind == "flatten":
                return Val("flatten", inner=Val("iter", items=list(reversed(it.inner.items[it.inner.pos[0]:])), pos=[0], sub=None))
            if it.kind != "iter":
                raise Unsupported("rev of " + it.kind)
            return Val("iter", items=list(reversed(it.items[it.pos[0]:])), pos=[0], sub=None)
        if re.search(r"^<Rev<.*> as Iterator>::(next|flatten)$|^<Rev<.*> as IntoIterator>::into_iter$", c):
            if c.endswith("::flatten"):
                return Val("flatten", inner=a[0])
            if c.endswith("::into_iter"):
                return a[0]
            it = D(a[0])
            if it.kind == "flatten":
                it = it.inner
            if it.pos[0] < len(it.items):
                x = it.items[it.pos[0]]
                it.pos[0] += 1
                return SOME(x)
            return NONE()
        if re.search(r" as Index<std::ops::RangeFrom<usize>>>::index$| as Index<RangeFrom<usize>>>::index$", c):
            v = D(a[0])
            rg = a[1]
            st = rg.fields[0]
            if v.kind != "vec":
                raise Unsupported("range index of " + v.kind)
            n = len(v.items)
            inb = self.fold(BOOL("(bvule %s %s)" % (st.s, bv(64, n)))).s
            if not self.branch(inb, "slice start bound"):
                raise Panic("panic: range start index out of range for slice of length %d" % n)
            k = self.concretise(st, "slice start")
            return Val("vec", items=v.items[k:])
        if re.search(r"slice::<impl \[.*\]>::iter$", c):
            v = D(a[0])
            return Val("iter", items=[Val("ref", lst=v.items, idx=k) for k in range(len(v.items))], pos=[0], sub=None)
        if re.search(r"as IntoIterator>::into_iter$", c):
            v = a[0]
            if v.kind in ("iter", "flatten", "filtermap"):
                return v
            if v.kind == "vec":
                return Val("iter", items=list(v.items), pos=[0], sub=None)
            if v.kind == "map":
                self.assumptions_used.add("HashMap iteration visits entries in insertion order; keys are unique")
                return Val("iter", items=[Val("struct", name="(tuple)", fields=[k, x]) for k, x in v.entries], pos=[0], sub=None)
            if v.kind == "ref" and D(v).kind == "vec":
                vv = D(v)
                return Val("iter", items=[Val("ref", lst=vv.items, idx=k) for k in range(len(vv.items))], pos=[0], sub=None)
            raise Unsupported("into_iter of " + v.kind)
        if re.search(r"as Iterator>::flatten$", c):
            return Val("flatten", inner=a[0])
        if re.search(r"as Iterator>::filter_map::<", c):
            return Val("filtermap", inner=a[0], closure=a[1])
        if re.search(r"^<Flatten<.*> as Iterator>::next$", c):
            it = D(a[0]).inner
            while it.pos[0] < len(it.items):
                x = it.items[it.pos[0]]
                it.pos[0] += 1
                if x.kind != "enum" or x.ename != "Option":
                    raise Unsupported("flatten over " + x.kind)
                if x.idx == 1:
                    return SOME(x.fields[0])
            return NONE()
        if re.search(r" as Iterator>::next$", c) and D(a[0]).kind == "iter":
            it = D(a[0])
            if it.pos[0] < len(it.items):
                x = it.items[it.pos[0]]
                it.pos[0] += 1
                return SOME(x)
            return NONE()
        if re.search(r"^<FilterMap<.*> as Iterator>::sum::<usize>$", c):
            fm = a[0]
            it = fm.inner
            e = bv(64, 0)
            while it.pos[0] < len(it.items):
                x = it.items[it.pos[0]]
                it.pos[0] += 1
                cl = fm.closure
                r = self.call_fn(self.closure_fn(cl), [Val("ref", lst=[cl], idx=0), x])
                if r.idx == 1:
                    e = "(bvadd %s %s)" % (e, r.fields[0].s)
            return self.fold(BV(64, e))
        # ---- HashMap
        if re.search(r"HashMap::<.*>::new$", c):
            return Val("map", entries=[])
        if re.search(r"HashMap::<.*>::len$", c):
            return BV(64, bv(64, len(D(a[0]).entries)))
        if re.search(r"HashMap::<.*>::is_empty$", c):
            return BOOL("true" if not D(a[0]).entries else "false")
        if re.search(r"HashMap::<.*>::get_mut::<|HashMap::<.*>::get::<", c):
            mp = D(a[0])
            j = self.lookup(mp, a[1], "HashMap::get")
            return NONE() if j is None else SOME(Val("ref", lst=mp.entries[j], idx=1))
        if re.search(r"HashMap::<.*>::contains_key::<", c):
            return BOOL("true" if self.lookup(D(a[0]), a[1], "HashMap::contains_key") is not None else "false")
        if re.search(r"HashMap::<.*>::insert$", c):
            mp = D(a[0])
            j = self.lookup(mp, a[1], "HashMap::insert")
            if j is None:
                mp.entries.append([a[1], a[2]])
                return NONE()
            old = mp.entries[j][1]
            mp.entries[j][1] = a[2]
            return SOME(old)
        if re.search(r"HashMap::<.*>::remove::<", c):
            mp = D(a[0])
            j = self.lookup(mp, a[1], "HashMap::remove")
            if j is None:
                return NONE()
            return SOME(mp.entries.pop(j)[1])
        if re.search(r"HashMap::<.*>::clear$", c):
            del D(a[0]).entries[:]
            return OPAQUE("unit")
        if re.search(r"HashMap::<.*>::entry$", c):
            mp = D(a[0])
            j = self.lookup(mp, a[1], "HashMap::entry")
            if j is None:
                return mk_enum("Entry", "Vacant", 1, [Val("vacant", mp=mp, key=a[1])])
            return mk_enum("Entry", "Occupied", 0, [Val("struct", name="OccupiedEntry", fields=[Val("ref", lst=mp.entries[j], idx=1)])])
        if re.search(r"VacantEntry::<.*>::insert$", c):
            v = a[0]
            v.mp.entries.append([v.key, a[1]])
            return Val("ref", lst=v.mp.entries[-1], idx=1)
        if re.search(r"OccupiedEntry::<.*>::(get_mut|into_mut|get)$", c):
            return D(a[0]).fields[0] if a[0].kind != "struct" else a[0].fields[0]
        if re.search(r"HashMap::<.*>::drain$", c):
            mp = D(a[0])
            self.assumptions_used.add("HashMap iteration (drain) visits entries in insertion order; keys are unique")
            items = [Val("struct", name="(tuple)", fields=[k, v]) for k, v in mp.entries]
            del mp.entries[:]
            return Val("iter", items=items, pos=[0], sub=None)
        if re.search(r"as Iterator>::collect::<(std::vec::)?Vec<", c):
            it = a[0]
            if it.kind != "iter":
                raise Unsupported("collect of " + it.kind)
            return Val("vec", items=it.items[it.pos[0]:])
        raise Unsupported("call to " + c)


def _find_close(s):
    d = 1
    for i, ch in enumerate(s):
        if ch == "(":
            d += 1
        elif ch == ")":
            d -= 1
            if d == 0:
                return i
    return len(s)


def _split_assign(st):
    """`<place> = <rvalue>;` with a place that may contain parentheses and ` = ` only at top level"""
    st = st.strip()
    if not st.endswith(";"):
        return None
    st = st[:-1]
    d = 0
    for i, ch in enumerate(st):
        if ch in "([{":
            d += 1
        elif ch in ")]}":
            d -= 1
        elif d == 0 and st.startswith(" = ", i):
            lhs = st[:i].strip()
            if re.match(r"^(_\d+|\(.*\)(\[_\d+\])?|_\d+\[_\d+\])$", lhs):
                return lhs, st[i + 3:]
            return None
    return None


def _pick_arm(arms, val):
    other = None
    for k, tgt in arms:
        if k == "otherwise":
            other = tgt
        elif int(k) == val:
            return tgt
    if other is None:
        raise Panic("switchInt without a matching arm")
    return other


def _eval_closed(s):
    """evaluates a closed SMT-LIB term built from the operators this module emits; None if it has free symbols"""
    toks = re.findall(r"\(|\)|[^\s()]+", s)
    pos = [0]

    def parse():
        t = toks[pos[0]]
        pos[0] += 1
        if t != "(":
            return t
        lst = []
        while toks[pos[0]] != ")":
            lst.append(parse())
        pos[0] += 1
        return lst

    try:
        ast = parse()
    except IndexError:
        return None

    def ev(x):
        # returns (value, width) for bit-vectors, bool for Bools
        if isinstance(x, str):
            if x == "true":
                return True
            if x == "false":
                return False
            raise KeyError(x)
        if x[0] == "_" and isinstance(x[1], str) and x[1].startswith("bv"):
            return (int(x[1][2:]), int(x[2]))
        op = x[0]
        if isinstance(op, list):
            if op[0] == "_" and op[1] == "extract":
                hi, lo = int(op[2]), int(op[3])
                v, w = ev(x[1])
                return ((v >> lo) & ((1 << (hi - lo + 1)) - 1), hi - lo + 1)
            if op[0] == "_" and op[1] == "zero_extend":
                v, w = ev(x[1])
                return (v, w + int(op[2]))
            raise KeyError(str(op))
        args = [ev(y) for y in x[1:]]
        if op == "not":
            return not args[0]
        if op == "and":
            return all(args)
        if op == "or":
            return any(args)
        if op == "=>":
            return (not args[0]) or args[1]
        if op == "ite":
            return args[1] if args[0] else args[2]
        if op == "=":
            return args[0] == args[1]
        (a, w), (b, _w) = args[0], args[1]
        M = (1 << w) - 1
        if op == "bvadd":
            r = a
            for (y, _) in args[1:]:
                r = (r + y) & M
            return (r, w)
        if op == "bvsub":
            return ((a - b) & M, w)
        if op == "bvmul":
            return ((a * b) & M, w)
        if op == "bvult":
            return a < b
        if op == "bvule":
            return a <= b
        if op == "bvugt":
            return a > b
        if op == "bvuge":
            return a >= b
        if op == "bvand":
            return (a & b, w)
        if op == "bvor":
            return (a | b, w)
        if op == "bvxor":
            return (a ^ b, w)
        raise KeyError(op)

    try:
        r = ev(ast)
    except (KeyError, ValueError, TypeError, IndexError):
        return None
    if isinstance(r, tuple):
        return r[0]
    return r
