//! Native replay of a solver counterexample: `replay <harness> <v0,v1,...>`.
//! exit 101 (panic) = the assertion fails on the real crates with these values;
//! exit 0 = ran to the end without failure; exit 3 = a harness assumption is violated.
#[cfg(kani)]
fn main() {}

#[cfg(not(kani))]
fn main() {
    let args: Vec<String> = std::env::args().collect();
    if args.len() < 2 {
        eprintln!("usage: replay <harness> [v0,v1,...]");
        std::process::exit(64);
    }
    let vals: Vec<u64> = if args.len() > 2 && !args[2].is_empty() {
        args[2].split(',').map(|s| s.parse::<u64>().expect("u64")).collect()
    } else {
        vec![]
    };
    for t in edp_verif_harness::tables() {
        for (n, f) in t.iter() {
            if *n == args[1] {
                edp_verif_harness::vk::native::load(&vals);
                f();
                if edp_verif_harness::vk::native::exhausted() {
                    eprintln!("REPLAY: value queue exhausted (trace shorter than execution)");
                }
                println!("REPLAY: completed without assertion failure; reached_end={}",
                    edp_verif_harness::vk::native::reached());
                std::process::exit(0);
            }
        }
    }
    eprintln!("unknown harness {}", args[1]);
    std::process::exit(64);
}
