//! C01 — encode/decode round trip preserves the Erlang value of every term.
use crate::refetf::*;
use crate::terms::*;
use crate::vassert;
use crate::vk;
use erltf::OwnedTerm;

pub fn roundtrip(t: &OwnedTerm, r: &RV) {
    // (a) encoding a representable term succeeds
    let bytes = match erltf::encode(t) {
        Ok(b) => b,
        Err(e) => {
            vassert!(false, "L:encode_ok");
            vk::leak(e);
            return;
        }
    };
    // (b) an independent reader of the format reads the same value
    vassert!(accepts(&bytes, r), "L:independent_reader_agrees");
    // (c) the library's decoder yields a term denoting the same value
    match erltf::decode(&bytes) {
        Ok(d) => {
            vassert!(denotes(&d, r), "L:decode_denotes_same_value");
            // (d) encoding the decoded term reproduces the bytes
            match erltf::encode(&d) {
                Ok(b2) => {
                    vassert!(b2.len() == bytes.len(), "L:reencode_same_length");
                    let mut i = 0;
                    let mut same = true;
                    while i < bytes.len() && i < b2.len() {
                        if bytes[i] != b2[i] {
                            same = false;
                        }
                        i += 1;
                    }
                    vassert!(same, "L:reencode_same_bytes");
                    vk::leak(b2);
                }
                Err(e) => {
                    vassert!(false, "L:reencode_ok");
                    vk::leak(e);
                }
            }
            vk::leak(d);
        }
        Err(e) => {
            vassert!(false, "L:decode_ok");
            vk::leak(e);
        }
    }
    vk::leak(bytes);
}

/// encode only: (a) + (b) — cheaper, used for shapes whose decode side is too costly
pub fn encode_agrees(t: &OwnedTerm, r: &RV) {
    match erltf::encode(t) {
        Ok(bytes) => {
            vassert!(accepts(&bytes, r), "L:independent_reader_agrees");
            vk::leak(bytes);
        }
        Err(e) => {
            vassert!(false, "L:encode_ok");
            vk::leak(e);
        }
    }
}
