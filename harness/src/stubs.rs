//! Stubs used under Kani (DESIGN 2.4).  Each is part of the claim and echoed into evidence.

/// `std::fmt::format` -> empty string: only error/log *messages* are affected.
pub fn fmt_format(_args: std::fmt::Arguments<'_>) -> String {
    String::new()
}

/// `RandomState::new` needs getrandom (unsupported syscall): fixed keys.  HashMap iteration
/// order is never observed by a claimed property.
pub fn random_state_new() -> std::collections::hash_map::RandomState {
    // RandomState is two u64 keys
    unsafe { std::mem::transmute::<(u64, u64), std::collections::hash_map::RandomState>((0x0123456789abcdef, 0xfedcba9876543210)) }
}

/// `OwnedTerm::estimated_encoded_size` only sizes the encoder's buffer (capacity hint); a symbolic
/// capacity would be a symbolic-size allocation.  Its own panic-freedom is checked separately.
pub fn est_size(_t: &erltf::OwnedTerm) -> usize {
    63
}
