//! Stubs used under Kani (DESIGN 2.4).  Each is part of the claim and echoed into evidence.

/// `std::fmt::format` -> empty string: only error/log *messages* are affected.
pub fn fmt_format(_args: std::fmt::Arguments<'_>) -> String {
    String::new()
}

/// `RandomState::new` needs getrandom (unsupported syscall): fixed keys.  HashMap iteration
/// order is never observed by a claimed property.
pub fn random_state_new() -> std::collections::hash_map::RandomState {
    // RandomState is two u64 keys
    unsafe { std::mem::transmute::<(u64, u64), std::collections::hash_map::RandomState>((0x0123456789abcdef, 0xfedcba9876543210)) }
}

/// `OwnedTerm::estimated_encoded_size` only sizes the encoder's buffer (capacity hint); a symbolic
/// capacity would be a symbolic-size allocation.  Its own panic-freedom is checked separately.
pub fn est_size(_t: &erltf::OwnedTerm) -> usize {
    63
}

/// Model of `digest::compute_digest` for the state-machine harnesses: an injective mixing of the
/// challenge and the cookie's length/first byte.  The handshake property is "ack == D(our challenge,
/// cookie)"; MD5 itself is a trusted dependency and its input string is checked separately.
pub fn digest_model(challenge: u32, cookie: &str) -> [u8; 16] {
    let c = challenge.to_be_bytes();
    let b = cookie.as_bytes();
    let first = if b.is_empty() { 0 } else { b[0] };
    [c[0], c[1], c[2], c[3], b.len() as u8, first, 0xA5, 0x5A, c[3] ^ 0xff, c[2], c[1], c[0], 1, 2, 3, 4]
}

pub static mut NEXT_CHALLENGE: u32 = 0;
/// `digest::generate_challenge` reads the wall clock.  The harness draws an arbitrary u32 *before* the
/// call and registers it here (under Kani) or through the guarded `verif_hooks::force_challenge`
/// (native replay), so the same value is used in both worlds.
pub fn challenge_model() -> u32 {
    unsafe { NEXT_CHALLENGE }
}
pub fn register_challenge(v: u32) {
    #[cfg(kani)]
    unsafe {
        NEXT_CHALLENGE = v;
    }
    #[cfg(all(not(kani), edp_rs_verif))]
    edp_client::verif_hooks::force_challenge(v);
}
/// the digest function the peer model uses: the injective model under Kani, real MD5 natively
pub fn digest_fn(challenge: u32, cookie: &str) -> [u8; 16] {
    #[cfg(kani)]
    {
        digest_model(challenge, cookie)
    }
    #[cfg(not(kani))]
    {
        edp_client::digest::compute_digest(challenge, cookie)
    }
}

// ---- tracing: log emission -> empty bodies (a reachable `trace!` otherwise drags in thread-local
// destructors and `catch_unwind`, which Kani's compiler rejects)
pub fn tracing_is_enabled(_meta: &tracing_core::Metadata<'static>, _interest: tracing_core::Interest) -> bool {
    false
}
pub fn tracing_interest(_cs: &'static tracing_core::callsite::DefaultCallsite) -> tracing_core::Interest {
    tracing_core::Interest::never()
}
pub fn tracing_dispatch<'a>(_metadata: &'static tracing_core::Metadata<'static>, _fields: &'a tracing_core::field::ValueSet<'_>)
where
    'a: 'a,
{
}

/// `Instant::now` is a clock_gettime FFI call: a fixed instant (expiry by wall clock is outside the C09 claim)
pub fn instant_now() -> std::time::Instant {
    unsafe { std::mem::zeroed() }
}
