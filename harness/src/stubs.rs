//! Stubs used under Kani (DESIGN 2.4).  Each is part of the claim and echoed into evidence.
