//! Term builders of concrete shape with symbolic values, the reference value domain `RV`,
//! `denote` (OwnedTerm -> RV), and the reference Erlang term order `erl_cmp` written from
//! the OTP reference manual ("Term Comparisons"), independent of the library's own Ord.

use crate::vk;
use erltf::types::{ExternalFun, InternalFun};
use erltf::{Atom, BigInt, ExternalPid, ExternalPort, ExternalReference, OwnedTerm, Sign};
use std::cmp::Ordering;
use std::collections::BTreeMap;
use std::sync::Arc;

/// Reference value: what an Erlang term denotes.
#[derive(Clone, Debug, PartialEq)]
pub enum RV {
    /// exact integer: sign-magnitude, |v| < 2^120 (bigs of up to 15 digits)
    Int(i128),
    /// integer too wide for the reference arithmetic: sign + little-endian magnitude
    BigWide(bool, Vec<u8>),
    Float(u64), // bit pattern
    Atom(Vec<u8>),
    Ref(Vec<u8>, u32, Vec<u32>),
    Port(Vec<u8>, u64, u32),
    Pid(Vec<u8>, u32, u32, u32),
    ExtFun(Vec<u8>, Vec<u8>, u8),
    IntFun {
        arity: u8,
        uniq: [u8; 16],
        index: u32,
        module: Vec<u8>,
        old_index: u32,
        old_uniq: u32,
        pid: Box<RV>,
        free: Vec<RV>,
    },
    Tuple(Vec<RV>),
    /// entries in the order given (not sorted)
    Map(Vec<(RV, RV)>),
    /// cons cells: elements + tail; proper list == tail Nil; `[]` == (vec![], Nil) is written Nil
    Nil,
    List(Vec<RV>, Box<RV>),
    /// bit string: full bytes (last byte holds `last_bits` significant high bits, 1..=8; 8 when whole)
    Bits(Vec<u8>, u8),
}

pub fn atom_of(bytes: &[u8]) -> Atom {
    // direct construction (field is public): avoids Atom::new's 14-entry interning loop
    // callers pass ASCII only (assumed at generation), so this is valid UTF-8; the checked
    // validator's word-at-a-time path depends on pointer alignment and explodes under CBMC
    let s = unsafe { std::str::from_utf8_unchecked(bytes) };
    Atom { name: Arc::from(s) }
}

/// n symbolic ASCII bytes (1..=0x7f) — valid UTF-8 by construction
pub fn ascii<const N: usize>() -> [u8; N] {
    let mut a = [0u8; N];
    let mut i = 0;
    while i < N {
        let c = vk::u8();
        vk::assume(c < 0x80);
        a[i] = c;
        i += 1;
    }
    a
}
pub fn bytes<const N: usize>() -> [u8; N] {
    let mut a = [0u8; N];
    let mut i = 0;
    while i < N {
        a[i] = vk::u8();
        i += 1;
    }
    a
}

// ---------------------------------------------------------------- leaf builders
pub fn mk_int() -> (OwnedTerm, RV) {
    let v = vk::i64();
    (OwnedTerm::Integer(v), RV::Int(v as i128))
}
pub fn mk_float() -> (OwnedTerm, RV) {
    let f = vk::f64_finite();
    (OwnedTerm::Float(f), RV::Float(f.to_bits()))
}
/// big integer with exactly N digits, most significant digit non-zero (minimal), any sign
pub fn mk_big<const N: usize>() -> (OwnedTerm, RV) {
    let d: [u8; N] = bytes::<N>();
    vk::assume(d[N - 1] != 0);
    let neg = vk::bool();
    let mut mag: i128 = 0;
    let mut i = N;
    while i > 0 {
        i -= 1;
        mag = (mag << 8) | (d[i] as i128);
    }
    let t = OwnedTerm::BigInt(BigInt {
        sign: if neg { Sign::Negative } else { Sign::Positive },
        digits: d.to_vec(),
    });
    (t, RV::Int(if neg { -mag } else { mag }))
}
pub fn mk_atom<const N: usize>() -> (OwnedTerm, RV) {
    let b = ascii::<N>();
    (OwnedTerm::Atom(atom_of(&b)), RV::Atom(b.to_vec()))
}
pub fn mk_binary<const N: usize>() -> (OwnedTerm, RV) {
    let b = bytes::<N>();
    (OwnedTerm::Binary(b.to_vec()), RV::Bits(b.to_vec(), 8))
}
pub fn mk_string<const N: usize>() -> (OwnedTerm, RV) {
    let b = ascii::<N>();
    let s = unsafe { String::from_utf8_unchecked(b.to_vec()) };
    (OwnedTerm::String(s), RV::Bits(b.to_vec(), 8))
}
/// bit string with N >= 1 bytes, `bits` in 1..=8 significant high bits in the last byte,
/// padding bits zero (well-formedness assumption, recorded in evidence)
pub fn mk_bitbin<const N: usize>() -> (OwnedTerm, RV) {
    let mut b = bytes::<N>();
    let bits = vk::u8_in(1, 8);
    let mask: u8 = if bits == 8 { 0xff } else { !(0xffu8 >> bits) };
    vk::assume(b[N - 1] & !mask == 0);
    (
        OwnedTerm::BitBinary {
            bytes: b.to_vec(),
            bits,
        },
        RV::Bits(b.to_vec(), bits),
    )
}
pub fn mk_nil() -> (OwnedTerm, RV) {
    (OwnedTerm::Nil, RV::Nil)
}
pub fn mk_pid() -> (OwnedTerm, RV) {
    let n = ascii::<1>();
    let (id, serial, creation) = (vk::u32(), vk::u32(), vk::u32());
    (
        OwnedTerm::Pid(ExternalPid::new(atom_of(&n), id, serial, creation)),
        RV::Pid(n.to_vec(), id, serial, creation),
    )
}
pub fn mk_port() -> (OwnedTerm, RV) {
    let n = ascii::<1>();
    let (id, creation) = (vk::u64(), vk::u32());
    (
        OwnedTerm::Port(ExternalPort::new(atom_of(&n), id, creation)),
        RV::Port(n.to_vec(), id, creation),
    )
}
pub fn mk_ref<const K: usize>() -> (OwnedTerm, RV) {
    let n = ascii::<1>();
    let creation = vk::u32();
    let mut ids = [0u32; K];
    let mut i = 0;
    while i < K {
        ids[i] = vk::u32();
        i += 1;
    }
    let mut t = OwnedTerm::Reference(ExternalReference::new(atom_of(&n), creation, ids.to_vec()));
    pin_word0(&mut t, K as u64);
    (t, RV::Ref(n.to_vec(), creation, ids.to_vec()))
}

/// `OwnedTerm` is niche-encoded: `Reference` is the untagged variant and its "discriminant" is
/// derived from the first machine word (the capacity of `ids`).  Kani reads that word through a
/// pointer cast which CBMC cannot constant-propagate from the field-wise construction, so symex
/// would enter every match arm with type-confused data.  Re-writing the word with the value it
/// already holds (assumed equal first, so this is a no-op; a wrong constant makes the harness
/// vacuous and the vacuity witness reports it) gives CBMC the constant.
pub fn pin_word0(t: &mut OwnedTerm, word: u64) {
    let p = t as *mut OwnedTerm as *mut u64;
    unsafe {
        vk::assume(*p == word);
        *p = word;
    }
}
pub fn mk_extfun() -> (OwnedTerm, RV) {
    let m = ascii::<1>();
    let f = ascii::<1>();
    let a = vk::u8();
    (
        OwnedTerm::ExternalFun(ExternalFun::new(atom_of(&m), atom_of(&f), a)),
        RV::ExtFun(m.to_vec(), f.to_vec(), a),
    )
}
/// internal fun without free variables; uniq: first two bytes symbolic, rest zero
pub fn mk_intfun() -> (OwnedTerm, RV) {
    let m = ascii::<1>();
    let n = ascii::<1>();
    let arity = vk::u8();
    let mut uniq = [0u8; 16];
    uniq[0] = vk::u8();
    uniq[15] = vk::u8();
    let (index, old_index, old_uniq) = (vk::u32(), vk::u32(), vk::u32());
    let (id, serial, creation) = (vk::u32(), vk::u32(), vk::u32());
    let pid = ExternalPid::new(atom_of(&n), id, serial, creation);
    let t = OwnedTerm::InternalFun(Box::new(InternalFun::new(
        arity,
        uniq,
        index,
        0,
        atom_of(&m),
        old_index,
        old_uniq,
        pid,
        vec![],
    )));
    let r = RV::IntFun {
        arity,
        uniq,
        index,
        module: m.to_vec(),
        old_index,
        old_uniq,
        pid: Box::new(RV::Pid(n.to_vec(), id, serial, creation)),
        free: vec![],
    };
    (t, r)
}

// ---------------------------------------------------------------- container builders
pub fn mk_tuple(es: Vec<(OwnedTerm, RV)>) -> (OwnedTerm, RV) {
    let mut ts = Vec::with_capacity(es.len());
    let mut rs = Vec::with_capacity(es.len());
    for (t, r) in es {
        ts.push(t);
        rs.push(r);
    }
    (OwnedTerm::Tuple(ts), RV::Tuple(rs))
}
pub fn mk_list(es: Vec<(OwnedTerm, RV)>) -> (OwnedTerm, RV) {
    let mut ts = Vec::with_capacity(es.len());
    let mut rs = Vec::with_capacity(es.len());
    for (t, r) in es {
        ts.push(t);
        rs.push(r);
    }
    let rv = if rs.is_empty() {
        RV::Nil
    } else {
        RV::List(rs, Box::new(RV::Nil))
    };
    (OwnedTerm::List(ts), rv)
}
pub fn mk_improper(es: Vec<(OwnedTerm, RV)>, tail: (OwnedTerm, RV)) -> (OwnedTerm, RV) {
    let mut ts = Vec::with_capacity(es.len());
    let mut rs = Vec::with_capacity(es.len());
    for (t, r) in es {
        ts.push(t);
        rs.push(r);
    }
    (
        OwnedTerm::ImproperList {
            elements: ts,
            tail: Box::new(tail.0),
        },
        RV::List(rs, Box::new(tail.1)),
    )
}

// ---------------------------------------------------------------- reference order

fn rank(v: &RV) -> u8 {
    match v {
        RV::Int(_) | RV::BigWide(..) | RV::Float(_) => 0,
        RV::Atom(_) => 1,
        RV::Ref(..) => 2,
        RV::ExtFun(..) | RV::IntFun { .. } => 3,
        RV::Port(..) => 4,
        RV::Pid(..) => 5,
        RV::Tuple(_) => 6,
        RV::Map(_) => 7,
        RV::Nil => 8,
        RV::List(..) => 9,
        RV::Bits(..) => 10,
    }
}

/// exact comparison of an integer with a finite float, integer arithmetic only
pub fn cmp_int_float(i: i128, fbits: u64) -> Ordering {
    if i >= i64::MIN as i128 && i <= i64::MAX as i128 {
        return cmp_i64_float(i as i64, fbits);
    }
    cmp_wide_int_float(i, fbits)
}

/// exact comparison of an i64 with a finite float in 64-bit integer arithmetic
pub fn cmp_i64_float(i: i64, fbits: u64) -> Ordering {
    let neg = (fbits >> 63) != 0;
    let e = ((fbits >> 52) & 0x7ff) as i32;
    let frac = fbits & ((1u64 << 52) - 1);
    if e == 0 && frac == 0 {
        return i.cmp(&0);
    }
    if neg && i >= 0 {
        return Ordering::Greater;
    }
    if !neg && i <= 0 {
        return Ordering::Less;
    }
    // same non-zero sign: compare magnitudes |i| (<= 2^63) and |f|
    let ai: u64 = if i < 0 { (i as u64).wrapping_neg() } else { i as u64 };
    let mag = if e < 1023 {
        Ordering::Greater // |f| < 1 <= |i|
    } else if e >= 1023 + 64 {
        Ordering::Less // |f| >= 2^64 > |i|
    } else {
        let m = frac | (1u64 << 52);
        let sh = e - 1075; // |f| = m * 2^sh, -52 <= sh <= 11
        if sh >= 0 {
            // m < 2^53, sh <= 11: m << sh < 2^64
            ai.cmp(&(m << (sh as u32)))
        } else {
            let s = (-sh) as u32;
            let ip = m >> s;
            let rem = m & ((1u64 << s) - 1);
            match ai.cmp(&ip) {
                Ordering::Equal => {
                    if rem != 0 { Ordering::Less } else { Ordering::Equal }
                }
                o => o,
            }
        }
    };
    if neg { mag.reverse() } else { mag }
}

fn cmp_wide_int_float(i: i128, fbits: u64) -> Ordering {
    let neg = (fbits >> 63) != 0;
    let e = ((fbits >> 52) & 0x7ff) as i32;
    let frac = fbits & ((1u64 << 52) - 1);
    // value = m * 2^x
    let (m, x): (u128, i32) = if e == 0 {
        (frac as u128, -1074)
    } else {
        ((frac | (1u64 << 52)) as u128, e - 1075)
    };
    if m == 0 {
        return i.cmp(&0);
    }
    // compare signs first
    if neg && i >= 0 {
        return Ordering::Greater;
    }
    if !neg && i <= 0 {
        return Ordering::Less;
    }
    // same (non-zero) sign: compare magnitudes
    let ai: u128 = if i < 0 { (-(i + 1)) as u128 + 1 } else { i as u128 };
    let mag = if x >= 0 {
        if x >= 70 {
            // m >= 1, so |f| >= 2^70 ... may still be below 2^120; handle by shifting when it fits
            if x > 127 - 53 {
                Ordering::Less // |i| < 2^120 <= |f|
            } else {
                ai.cmp(&(m << (x as u32)))
            }
        } else {
            ai.cmp(&(m << (x as u32)))
        }
    } else {
        let s = (-x) as u32;
        if s >= 64 {
            // |f| < 1 <= |i|
            Ordering::Greater
        } else {
            let ip = m >> s; // floor(|f|)
            let rem = m & ((1u128 << s) - 1);
            match ai.cmp(&ip) {
                Ordering::Equal => {
                    if rem != 0 {
                        Ordering::Less
                    } else {
                        Ordering::Equal
                    }
                }
                o => o,
            }
        }
    };
    if neg { mag.reverse() } else { mag }
}

fn cmp_float_float(a: u64, b: u64) -> Ordering {
    // finite floats: order by value; -0.0 == 0.0
    let key = |x: u64| -> i128 {
        let mag = (x & !(1u64 << 63)) as i128;
        if (x >> 63) != 0 { -mag } else { mag }
    };
    key(a).cmp(&key(b))
}

fn cmp_wide(an: bool, ad: &[u8], bn: bool, bd: &[u8]) -> Ordering {
    // both minimal, non-empty
    if an != bn {
        return if an { Ordering::Less } else { Ordering::Greater };
    }
    let mut o = ad.len().cmp(&bd.len());
    if o == Ordering::Equal {
        let mut i = ad.len();
        while i > 0 {
            i -= 1;
            if ad[i] != bd[i] {
                o = ad[i].cmp(&bd[i]);
                break;
            }
        }
    }
    if an { o.reverse() } else { o }
}

fn cmp_num(a: &RV, b: &RV) -> Ordering {
    match (a, b) {
        (RV::Int(x), RV::Int(y)) => x.cmp(y),
        (RV::Int(x), RV::Float(f)) => cmp_int_float(*x, *f),
        (RV::Float(f), RV::Int(x)) => cmp_int_float(*x, *f).reverse(),
        (RV::Float(x), RV::Float(y)) => cmp_float_float(*x, *y),
        (RV::BigWide(an, ad), RV::BigWide(bn, bd)) => cmp_wide(*an, ad, *bn, bd),
        (RV::BigWide(an, _), _) => {
            // wide = at least 16 digits = |v| >= 2^120: beyond every Int; floats are not compared with wide here
            if *an { Ordering::Less } else { Ordering::Greater }
        }
        (_, RV::BigWide(bn, _)) => {
            if *bn { Ordering::Greater } else { Ordering::Less }
        }
        _ => unreachable!(),
    }
}

/// bit strings: lexicographic over bits, a proper prefix is smaller
fn cmp_bits(a: &[u8], ab: u8, b: &[u8], bb: u8) -> Ordering {
    let alen = if a.is_empty() { 0 } else { (a.len() - 1) * 8 + ab as usize };
    let blen = if b.is_empty() { 0 } else { (b.len() - 1) * 8 + bb as usize };
    let common = if alen < blen { alen } else { blen };
    let full = common / 8;
    let mut i = 0;
    while i < full {
        if a[i] != b[i] {
            return a[i].cmp(&b[i]);
        }
        i += 1;
    }
    let r = (common % 8) as u32;
    if r != 0 {
        let mask = !(0xffu8 >> r);
        let (x, y) = (a[full] & mask, b[full] & mask);
        if x != y {
            return x.cmp(&y);
        }
    }
    alen.cmp(&blen)
}

/// Erlang's standard term order on denoted values (exact `==` semantics: 1 == 1.0).
pub fn erl_cmp(a: &RV, b: &RV) -> Ordering {
    let (ra, rb) = (rank(a), rank(b));
    if ra != rb {
        return ra.cmp(&rb);
    }
    match (a, b) {
        (RV::Nil, RV::Nil) => Ordering::Equal,
        (RV::Atom(x), RV::Atom(y)) => x.as_slice().cmp(y.as_slice()),
        (RV::Tuple(x), RV::Tuple(y)) => {
            if x.len() != y.len() {
                return x.len().cmp(&y.len());
            }
            for i in 0..x.len() {
                let o = erl_cmp(&x[i], &y[i]);
                if o != Ordering::Equal {
                    return o;
                }
            }
            Ordering::Equal
        }
        (RV::List(x, xt), RV::List(y, yt)) => {
            let n = if x.len() < y.len() { x.len() } else { y.len() };
            for i in 0..n {
                let o = erl_cmp(&x[i], &y[i]);
                if o != Ordering::Equal {
                    return o;
                }
            }
            if x.len() == y.len() {
                erl_cmp(xt, yt)
            } else if x.len() < y.len() {
                // a's remainder is its tail, b's remainder is a non-empty list
                let rest = RV::List(y[n..].to_vec(), yt.clone());
                erl_cmp(xt, &rest)
            } else {
                let rest = RV::List(x[n..].to_vec(), xt.clone());
                erl_cmp(&rest, yt)
            }
        }
        (RV::Bits(x, xb), RV::Bits(y, yb)) => cmp_bits(x, *xb, y, *yb),
        (RV::Map(x), RV::Map(y)) => cmp_map(x, y),
        _ if ra == 0 => cmp_num(a, b),
        // identifiers and funs: only Equal <=> same identifying fields is prescribed
        _ => {
            if a == b {
                Ordering::Equal
            } else {
                Ordering::Less // placeholder: callers must use `same_identity` for these ranks
            }
        }
    }
}

/// true when the statement prescribes the order for this pair (not merely equal/unequal)
pub fn order_prescribed(a: &RV, b: &RV) -> bool {
    let (ra, rb) = (rank(a), rank(b));
    if ra != rb {
        return true;
    }
    !matches!(ra, 2 | 3 | 4 | 5)
}

/// key order inside maps: like erl_cmp but integers sort before floats when numerically equal
fn key_cmp(a: &RV, b: &RV) -> Ordering {
    match (a, b) {
        (RV::Int(_), RV::Float(_)) => match erl_cmp(a, b) {
            Ordering::Equal => Ordering::Less,
            o => o,
        },
        (RV::Float(_), RV::Int(_)) => match erl_cmp(a, b) {
            Ordering::Equal => Ordering::Greater,
            o => o,
        },
        _ => erl_cmp(a, b),
    }
}

fn sorted_entries(m: &[(RV, RV)]) -> Vec<(RV, RV)> {
    // insertion sort (maps here have <= 3 entries)
    let mut v: Vec<(RV, RV)> = Vec::with_capacity(m.len());
    for e in m {
        let mut pos = v.len();
        for j in 0..v.len() {
            if key_cmp(&e.0, &v[j].0) == Ordering::Less {
                pos = j;
                break;
            }
        }
        v.insert(pos, e.clone());
    }
    v
}

fn cmp_map(x: &[(RV, RV)], y: &[(RV, RV)]) -> Ordering {
    if x.len() != y.len() {
        return x.len().cmp(&y.len());
    }
    let (sx, sy) = (sorted_entries(x), sorted_entries(y));
    for i in 0..sx.len() {
        let o = key_cmp(&sx[i].0, &sy[i].0);
        if o != Ordering::Equal {
            return o;
        }
    }
    for i in 0..sx.len() {
        let o = erl_cmp(&sx[i].1, &sy[i].1);
        if o != Ordering::Equal {
            return o;
        }
    }
    Ordering::Equal
}

// ---------------------------------------------------------------- denote

fn big_to_rv(b: &BigInt) -> RV {
    // strip most-significant zero digits (a non-minimal encoding denotes the same integer)
    let mut n = b.digits.len();
    while n > 0 && b.digits[n - 1] == 0 {
        n -= 1;
    }
    if n <= 15 {
        let mut mag: i128 = 0;
        let mut i = n;
        while i > 0 {
            i -= 1;
            mag = (mag << 8) | (b.digits[i] as i128);
        }
        RV::Int(if b.sign.is_negative() { -mag } else { mag })
    } else {
        RV::BigWide(b.sign.is_negative(), b.digits[..n].to_vec())
    }
}

fn pid_rv(p: &ExternalPid) -> RV {
    RV::Pid(p.node.as_str().as_bytes().to_vec(), p.id, p.serial, p.creation)
}

/// The Erlang value an OwnedTerm denotes.
pub fn denote(t: &OwnedTerm) -> RV {
    match t {
        OwnedTerm::Atom(a) => RV::Atom(a.as_str().as_bytes().to_vec()),
        OwnedTerm::Integer(i) => RV::Int(*i as i128),
        OwnedTerm::Float(f) => RV::Float(f.to_bits()),
        OwnedTerm::Pid(p) => pid_rv(p),
        OwnedTerm::Port(p) => RV::Port(p.node.as_str().as_bytes().to_vec(), p.id, p.creation),
        OwnedTerm::Reference(r) => {
            RV::Ref(r.node.as_str().as_bytes().to_vec(), r.creation, r.ids.clone())
        }
        OwnedTerm::Binary(b) => RV::Bits(b.clone(), 8),
        OwnedTerm::BitBinary { bytes, bits } => {
            if bytes.is_empty() {
                RV::Bits(vec![], 8)
            } else {
                RV::Bits(bytes.clone(), *bits)
            }
        }
        OwnedTerm::String(s) => RV::Bits(s.as_bytes().to_vec(), 8),
        OwnedTerm::List(es) => {
            if es.is_empty() {
                RV::Nil
            } else {
                RV::List(es.iter().map(denote).collect(), Box::new(RV::Nil))
            }
        }
        OwnedTerm::ImproperList { elements, tail } => {
            if elements.is_empty() {
                denote(tail)
            } else {
                RV::List(elements.iter().map(denote).collect(), Box::new(denote(tail)))
            }
        }
        OwnedTerm::Map(m) => RV::Map(m.iter().map(|(k, v)| (denote(k), denote(v))).collect()),
        OwnedTerm::Tuple(es) => RV::Tuple(es.iter().map(denote).collect()),
        OwnedTerm::BigInt(b) => big_to_rv(b),
        OwnedTerm::ExternalFun(f) => RV::ExtFun(
            f.module.as_str().as_bytes().to_vec(),
            f.function.as_str().as_bytes().to_vec(),
            f.arity,
        ),
        OwnedTerm::InternalFun(f) => RV::IntFun {
            arity: f.arity,
            uniq: f.uniq,
            index: f.index,
            module: f.module.as_str().as_bytes().to_vec(),
            old_index: f.old_index,
            old_uniq: f.old_uniq,
            pid: Box::new(pid_rv(&f.pid)),
            free: f.free_vars.iter().map(denote).collect(),
        },
        OwnedTerm::Nil => RV::Nil,
    }
}

/// Same Erlang value (term equality `=:=` up to representation: List([]) == Nil, String == Binary,
/// wide Integer == BigInt, non-minimal BigInt == minimal).  Floats by bit pattern, maps as sets of entries.
pub fn same_value(a: &RV, b: &RV) -> bool {
    match (a, b) {
        (RV::Map(x), RV::Map(y)) => {
            if x.len() != y.len() {
                return false;
            }
            for (k, v) in x {
                let mut found = false;
                for (k2, v2) in y {
                    if same_value(k, k2) && same_value(v, v2) {
                        found = true;
                    }
                }
                if !found {
                    return false;
                }
            }
            true
        }
        (RV::Tuple(x), RV::Tuple(y)) => {
            x.len() == y.len() && (0..x.len()).all(|i| same_value(&x[i], &y[i]))
        }
        (RV::List(x, xt), RV::List(y, yt)) => {
            x.len() == y.len() && (0..x.len()).all(|i| same_value(&x[i], &y[i])) && same_value(xt, yt)
        }
        (
            RV::IntFun { arity: a1, uniq: u1, index: i1, module: m1, old_index: oi1, old_uniq: ou1, pid: p1, free: f1 },
            RV::IntFun { arity: a2, uniq: u2, index: i2, module: m2, old_index: oi2, old_uniq: ou2, pid: p2, free: f2 },
        ) => {
            a1 == a2 && u1 == u2 && i1 == i2 && m1 == m2 && oi1 == oi2 && ou1 == ou2 && same_value(p1, p2)
                && f1.len() == f2.len() && (0..f1.len()).all(|i| same_value(&f1[i], &f2[i]))
        }
        (RV::Bits(x, xb), RV::Bits(y, yb)) => {
            x == y && (x.is_empty() || xb == yb)
        }
        _ => a == b,
    }
}

// ---------------------------------------------------------------- recording hasher
/// Records everything a `Hash` impl feeds to it, so "equal terms hash equally" is decided for
/// every `Hasher` at once (equal transcripts => equal hash under any hasher).
pub struct Rec {
    pub w: [u64; 48],
    pub n: usize,
}
impl Rec {
    pub fn new() -> Self {
        Rec { w: [0; 48], n: 0 }
    }
    fn push(&mut self, tag: u64, v: u64) {
        if self.n < 48 {
            self.w[self.n] = (tag << 60) ^ v;
        }
        self.n += 1;
    }
    pub fn same(&self, o: &Rec) -> bool {
        if self.n != o.n {
            return false;
        }
        let mut i = 0;
        while i < 48 {
            if i < self.n && self.w[i] != o.w[i] {
                return false;
            }
            i += 1;
        }
        true
    }
}
impl std::hash::Hasher for Rec {
    fn finish(&self) -> u64 {
        0
    }
    fn write(&mut self, bytes: &[u8]) {
        self.push(9, bytes.len() as u64);
        for b in bytes {
            self.push(1, *b as u64);
        }
    }
    fn write_u8(&mut self, i: u8) {
        self.push(1, i as u64)
    }
    fn write_u16(&mut self, i: u16) {
        self.push(2, i as u64)
    }
    fn write_u32(&mut self, i: u32) {
        self.push(3, i as u64)
    }
    fn write_u64(&mut self, i: u64) {
        self.push(4, i & 0x0fff_ffff_ffff_ffff);
        self.push(4, i >> 60);
    }
    fn write_usize(&mut self, i: usize) {
        self.write_u64(i as u64)
    }
    fn write_i64(&mut self, i: i64) {
        self.write_u64(i as u64)
    }
    fn write_isize(&mut self, i: isize) {
        self.write_u64(i as u64)
    }
}
pub fn transcript<T: std::hash::Hash>(t: &T) -> Rec {
    let mut r = Rec::new();
    t.hash(&mut r);
    r
}

// ---------------------------------------------------------------- integer classes with a concrete encoded length
pub fn mk_int_small() -> (OwnedTerm, RV) {
    let v = vk::u8() as i64;
    (OwnedTerm::Integer(v), RV::Int(v as i128))
}
/// fits INTEGER_EXT but not SMALL_INTEGER_EXT
pub fn mk_int_i32() -> (OwnedTerm, RV) {
    let v = vk::i32() as i64;
    vk::assume(v < 0 || v > 255);
    (OwnedTerm::Integer(v), RV::Int(v as i128))
}
/// i64 outside the i32 range whose magnitude has exactly N significant bytes (4..=8)
pub fn mk_int_wide<const N: usize>() -> (OwnedTerm, RV) {
    let v = vk::i64();
    vk::assume(v < i32::MIN as i64 || v > i32::MAX as i64);
    let m = (v as i128).unsigned_abs();
    vk::assume(m < (1u128 << (8 * N)) && m >= (1u128 << (8 * (N - 1))));
    (OwnedTerm::Integer(v), RV::Int(v as i128))
}

// ---------------------------------------------------------------- identifiers that fit the legacy encodings
/// pid whose creation fits PID_EXT's single byte
pub fn mk_pid_c8() -> (OwnedTerm, RV) {
    let n = ascii::<1>();
    let (id, serial, creation) = (vk::u32(), vk::u32(), vk::u8() as u32);
    (OwnedTerm::Pid(ExternalPid::new(atom_of(&n), id, serial, creation)), RV::Pid(n.to_vec(), id, serial, creation))
}
/// port with a 32-bit id (NEW_PORT_EXT)
pub fn mk_port_32() -> (OwnedTerm, RV) {
    let n = ascii::<1>();
    let (id, creation) = (vk::u32() as u64, vk::u32());
    (OwnedTerm::Port(ExternalPort::new(atom_of(&n), id, creation)), RV::Port(n.to_vec(), id, creation))
}
/// port with a 32-bit id and 8-bit creation (PORT_EXT)
pub fn mk_port_32_c8() -> (OwnedTerm, RV) {
    let n = ascii::<1>();
    let (id, creation) = (vk::u32() as u64, vk::u8() as u32);
    (OwnedTerm::Port(ExternalPort::new(atom_of(&n), id, creation)), RV::Port(n.to_vec(), id, creation))
}
/// reference with 8-bit creation (NEW_REFERENCE_EXT)
pub fn mk_ref_c8<const K: usize>() -> (OwnedTerm, RV) {
    let n = ascii::<1>();
    let creation = vk::u8() as u32;
    let mut ids = [0u32; K];
    let mut i = 0;
    while i < K {
        ids[i] = vk::u32();
        i += 1;
    }
    let mut t = OwnedTerm::Reference(ExternalReference::new(atom_of(&n), creation, ids.to_vec()));
    pin_word0(&mut t, K as u64);
    (t, RV::Ref(n.to_vec(), creation, ids.to_vec()))
}

/// 8-digit big integer with at most 16 significant bits (low six digits zero), so
/// every partial sum of the library's `bigint_to_f64` is exact.  In this region the recorded
/// finding "BigInt vs Float goes through a lossy conversion" cannot manifest, so all laws must hold.
pub fn mk_big8_exact() -> (OwnedTerm, RV) {
    // only the two most significant digits are non-zero: magnitude = (d6 + 256*d7) * 2^48 (16 significant bits),
    // which also keeps the library's eight chained f64 multiply-adds cheap for the solver
    let mut d = [0u8; 8];
    d[6] = vk::u8();
    d[7] = vk::u8();
    vk::assume(d[7] != 0);
    let neg = vk::bool();
    let mut mag: i128 = 0;
    let mut i = 8;
    while i > 0 {
        i -= 1;
        mag = (mag << 8) | (d[i] as i128);
    }
    let t = OwnedTerm::BigInt(BigInt {
        sign: if neg { Sign::Negative } else { Sign::Positive },
        digits: d.to_vec(),
    });
    (t, RV::Int(if neg { -mag } else { mag }))
}

// ---------------------------------------------------------------- identifiers in node-local (LOCAL_EXT) form
pub fn local_bytes() -> Vec<u8> {
    // 8 opaque hash bytes + one more byte standing for the nested encoding (content is irrelevant to ==/hash/cmp)
    let b = bytes::<9>();
    b.to_vec()
}
pub fn mk_pid_local() -> (OwnedTerm, RV) {
    let n = ascii::<1>();
    let (id, serial, creation) = (vk::u32(), vk::u32(), vk::u32());
    (
        OwnedTerm::Pid(ExternalPid::with_local_ext_bytes(atom_of(&n), id, serial, creation, local_bytes())),
        RV::Pid(n.to_vec(), id, serial, creation),
    )
}
pub fn mk_port_local() -> (OwnedTerm, RV) {
    let n = ascii::<1>();
    let (id, creation) = (vk::u64(), vk::u32());
    (
        OwnedTerm::Port(ExternalPort::with_local_ext_bytes(atom_of(&n), id, creation, local_bytes())),
        RV::Port(n.to_vec(), id, creation),
    )
}
pub fn mk_ref_local() -> (OwnedTerm, RV) {
    let n = ascii::<1>();
    let creation = vk::u32();
    let ids = [vk::u32()];
    let mut t = OwnedTerm::Reference(ExternalReference::with_local_ext_bytes(atom_of(&n), creation, ids.to_vec(), local_bytes()));
    pin_word0(&mut t, 1);
    (t, RV::Ref(n.to_vec(), creation, ids.to_vec()))
}
