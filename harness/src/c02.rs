//! C02 — decoding untrusted bytes always returns: no panic, no allocation out of proportion.
//!
//! Per-tag length-field harnesses: `[131, TAG, <length/arity/count fields: fully symbolic>, <short tail>]`.
//! Rust panics (index, slice range, unwrap, arithmetic overflow, capacity overflow) are CBMC
//! assertions; the allocation budget (T3) is 64 * len(input) + 1 MiB per single request.
//! The length field takes the listed *concrete* boundary values (a symbolic count would size an
//! allocation symbolically, which CBMC cannot handle); everything behind it is symbolic.
use crate::refetf::Out;
use crate::vassert;
use crate::vk;

pub fn budget(len: usize) -> usize {
    64 * len + (1 << 20)
}

/// which entry point(s) to run
pub fn run(bytes: &[u8], which: u8) {
    vk::set_alloc_cap(budget(bytes.len()));
    if which == 0 {
        let r = erltf::decode(bytes);
        vk::leak(r);
    } else if which == 1 {
        let r = erltf::decode_borrowed(bytes);
        if let Err(e) = &r {
            vassert!(e.context.byte_offset <= bytes.len(), "L:error_offset_within_input");
        }
        vk::leak(r);
    } else if which == 2 {
        let r = erltf::decoder::decode_with_trailing(bytes);
        vk::leak(r);
    } else if which == 3 {
        let mut cache = erltf::AtomCache::new();
        let r = erltf::decode_with_atom_cache(bytes, &mut cache);
        vk::leak(r);
        vk::leak(cache);
    }
    vk::set_alloc_cap(usize::MAX);
}

/// `[131, tag, field (W bytes, big-endian, concrete value), extra symbolic bytes, tail]` where tail = T
/// small-integer terms `[97, x]`
pub fn tag_fields<const X: usize, const T: usize>(tag: u8, width: usize, value: u64, which: u8) {
    let mut o = Out::new();
    o.push(131);
    o.push(tag);
    let mut i = width;
    while i > 0 {
        i -= 1;
        o.push((value >> (8 * i)) as u8);
    }
    i = 0;
    while i < X {
        o.push(vk::u8());
        i += 1;
    }
    i = 0;
    while i < T {
        o.push(97);
        o.push(vk::u8());
        i += 1;
    }
    run(o.bytes(), which);
}

/// NEW_FUN_EXT with a well-formed prefix, the given free-variable count and nothing behind it
pub fn new_fun_numfree(num_free: u32, which: u8) {
    let mut o = Out::new();
    o.push(131);
    o.push(112);
    let mut i = 0;
    while i < 4 {
        o.push(vk::u8()); // Size
        i += 1;
    }
    o.push(vk::u8()); // Arity
    i = 0;
    while i < 16 {
        o.push(0);
        i += 1;
    }
    i = 0;
    while i < 4 {
        o.push(vk::u8()); // Index
        i += 1;
    }
    let nf = num_free.to_be_bytes();
    o.push(nf[0]);
    o.push(nf[1]);
    o.push(nf[2]);
    o.push(nf[3]);
    for b in [119u8, 1, b'm', 97, 0, 97, 0, 88, 119, 1, b'n', 0, 0, 0, 1, 0, 0, 0, 2, 0, 0, 0, 3] {
        o.push(b);
    }
    run(o.bytes(), which);
}

/// fragment header / continuation entry points on N symbolic bytes
pub fn fragment_entry<const N: usize>() {
    let mut b = [0u8; N];
    let mut i = 0;
    while i < N {
        b[i] = vk::u8();
        i += 1;
    }
    let r = erltf::decoder::decode_fragment_header(&b);
    if let Ok((h, rest)) = &r {
        vassert!(rest.len() <= N, "L:rest_within_input");
        let _ = h.num_atom_cache_refs;
    }
    vk::leak(r);
    let r = erltf::decoder::decode_fragment_cont(&b);
    vk::leak(r);
}

/// NEWER_REFERENCE_EXT (90) / NEW_REFERENCE_EXT (114) with a well-formed node and creation, the given
/// id-word count and `have` symbolic id words behind it
pub fn reference_words(tag: u8, count: u16, have: usize, which: u8) {
    let mut o = Out::new();
    o.push(131);
    o.push(tag);
    o.push((count >> 8) as u8);
    o.push(count as u8);
    o.push(119);
    o.push(1);
    o.push(b'n');
    let cw = if tag == 90 { 4 } else { 1 };
    let mut i = 0;
    while i < cw {
        o.push(vk::u8());
        i += 1;
    }
    i = 0;
    while i < 4 * have {
        o.push(vk::u8());
        i += 1;
    }
    run(o.bytes(), which);
}
