//! Harness crate for solver-based checking of michaelklishin/edp-rs (see /verif/DESIGN.md).
//! Every `pub fn cNN_*` in `gen/` is a `#[kani::proof]` under Kani and an ordinary function
//! for the native replay binary.
#![allow(unused, clippy::all)]
pub mod vk;
pub mod terms;
pub mod refetf;
#[cfg(kani)]
pub mod stubs;

macro_rules! prop {
    ($feat:literal, $m:ident, $g:ident, $path:literal) => {
        #[cfg(feature = $feat)]
        pub mod $m;
        #[cfg(feature = $feat)]
        #[path = $path]
        pub mod $g;
    };
}
prop!("c00", c00, gen_c00, "gen/c00.rs");
prop!("c01", c01, gen_c01, "gen/c01.rs");
prop!("c03", c03, gen_c03, "gen/c03.rs");
prop!("c08", c08, gen_c08, "gen/c08.rs");
prop!("c11", c11, gen_c11, "gen/c11.rs");
prop!("c12", c12, gen_c12, "gen/c12.rs");
prop!("c20", c20, gen_c20, "gen/c20.rs");

/// harness table for the replay binary
pub fn tables() -> Vec<&'static [(&'static str, fn())]> {
    let mut v: Vec<&'static [(&'static str, fn())]> = Vec::new();
    #[cfg(feature = "c00")]
    v.push(gen_c00::TABLE);
    #[cfg(feature = "c01")]
    v.push(gen_c01::TABLE);
    #[cfg(feature = "c03")]
    v.push(gen_c03::TABLE);
    #[cfg(feature = "c08")]
    v.push(gen_c08::TABLE);
    #[cfg(feature = "c11")]
    v.push(gen_c11::TABLE);
    #[cfg(feature = "c12")]
    v.push(gen_c12::TABLE);
    #[cfg(feature = "c20")]
    v.push(gen_c20::TABLE);
    v
}
