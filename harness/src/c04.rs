//! C04 — handshake: connected only after cookie proof; flags are the intersection; message layouts.
use crate::stubs::{digest_fn, register_challenge};
use crate::vassert;
use crate::vk;
use edp_client::flags::DistributionFlags;
use edp_client::state_machine::{ConnectionState, HandshakeStateMachine};

pub const COOKIE: &str = "ck";
pub const NAME: &str = "a@b";

pub struct Ghost {
    pub have_challenge: bool,
    pub our_challenge: u32,
    pub their_flags: u64,
    pub valid_connected: bool,
}

pub struct Run {
    pub sm: HandshakeStateMachine,
    pub our_flags: u64,
    pub creation: u32,
    pub g: Ghost,
}

pub fn new_run() -> Run {
    new_run_named(NAME)
}

pub fn new_run_named(name: &str) -> Run {
    let our_flags = vk::u64();
    let creation = vk::u32();
    let sm = HandshakeStateMachine::new(name.to_string(), "r@h".to_string(), COOKIE.to_string(), DistributionFlags::new(our_flags), creation);
    Run { sm, our_flags, creation, g: Ghost { have_challenge: false, our_challenge: 0, their_flags: 0, valid_connected: false } }
}

fn inv(r: &Run) {
    if r.sm.state() == ConnectionState::Connected {
        vassert!(r.g.valid_connected, "L:connected_only_after_verified_ack");
    }
}

pub fn step_begin(r: &mut Run) {
    let _ = r.sm.begin_connect();
    inv(r);
}

/// send_name: `len16 'n' 0x0005 flags32 name`
pub fn step_send_name(r: &mut Run) {
    match r.sm.prepare_send_name() {
        Ok(b) => {
            let n = NAME.as_bytes();
            let f = r.our_flags as u32;
            vassert!(b.len() == 2 + 7 + n.len(), "L:send_name_length");
            let ok = b[0] == 0 && b[1] as usize == 7 + n.len() && b[2] == b'n' && b[3] == 0 && b[4] == 5
                && b[5] == (f >> 24) as u8 && b[6] == (f >> 16) as u8 && b[7] == (f >> 8) as u8 && b[8] == f as u8
                && b[9] == n[0] && b[10] == n[1] && b[11] == n[2];
            vassert!(ok, "L:send_name_layout");
            vk::leak(b);
        }
        Err(e) => {
            vassert!(false, "L:send_name_ok");
            vk::leak(e);
        }
    }
    inv(r);
}

/// status message of K symbolic bytes after the 's' tag: accepted iff it spells "ok"
pub fn step_status<const K: usize>(r: &mut Run) {
    let mut m = [0u8; 16];
    m[0] = vk::u8();
    let mut i = 0;
    while i < K {
        m[1 + i] = vk::u8();
        i += 1;
    }
    let res = r.sm.handle_status(&m[..1 + K]);
    let is_ok = m[0] == b's' && K == 2 && m[1] == b'o' && m[2] == b'k';
    vassert!(res.is_ok() == is_ok, "L:only_ok_status_accepted");
    vk::leak(res);
    inv(r);
}

/// complement: `len16=9 'c' hi32(flags) creation32`
pub fn step_complement(r: &mut Run) {
    match r.sm.prepare_complement() {
        Ok(b) => {
            let hi = (r.our_flags >> 32) as u32;
            let c = r.creation;
            let ok = b.len() == 11 && b[0] == 0 && b[1] == 9 && b[2] == b'c'
                && b[3] == (hi >> 24) as u8 && b[4] == (hi >> 16) as u8 && b[5] == (hi >> 8) as u8 && b[6] == hi as u8
                && b[7] == (c >> 24) as u8 && b[8] == (c >> 16) as u8 && b[9] == (c >> 8) as u8 && b[10] == c as u8;
            vassert!(ok, "L:complement_layout");
            vk::leak(b);
        }
        Err(e) => {
            vassert!(false, "L:complement_ok");
            vk::leak(e);
        }
    }
    inv(r);
}

/// challenge message: 19 symbolic bytes (tag, flags64, challenge32, creation32, name length 0)
pub fn step_challenge(r: &mut Run, prev_their: u32) -> u32 {
    let mut m = [0u8; 19];
    let mut i = 0;
    while i < 17 {
        m[i] = vk::u8();
        i += 1;
    }
    // name length fixed to 0 (a symbolic length sizes the name's allocation)
    let fresh = vk::u32(); // what generate_challenge() will return (clock = arbitrary)
    register_challenge(fresh);
    let res = r.sm.handle_challenge(&m);
    let their = u32::from_be_bytes([m[9], m[10], m[11], m[12]]);
    let flags = u64::from_be_bytes([m[1], m[2], m[3], m[4], m[5], m[6], m[7], m[8]]);
    match res {
        Ok(()) => {
            vassert!(m[0] == b'N', "L:challenge_tag_checked");
            r.g.have_challenge = true;
            r.g.our_challenge = fresh;
            r.g.their_flags = flags;
            r.g.valid_connected = false;
            let nf = r.sm.negotiated_flags();
            vassert!(nf.map(|f| f.as_u64()) == Some(flags & r.our_flags), "L:negotiated_flags_are_intersection");
        }
        Err(e) => {
            vassert!(m[0] != b'N', "L:wellformed_challenge_accepted");
            vk::leak(e);
            // a rejected challenge message changes nothing: a later reply still answers the last accepted challenge
            inv(r);
            return prev_their;
        }
    }
    inv(r);
    their
}

/// reply: `len16=21 'r' our_challenge32 digest(their_challenge, cookie)`
pub fn step_reply(r: &mut Run, their_challenge: u32) {
    match r.sm.prepare_challenge_reply() {
        Ok(b) => {
            vassert!(r.g.have_challenge, "L:reply_needs_challenge");
            let d = digest_fn(their_challenge, COOKIE);
            let oc = r.g.our_challenge;
            let mut ok = b.len() == 23 && b[0] == 0 && b[1] == 21 && b[2] == b'r'
                && b[3] == (oc >> 24) as u8 && b[4] == (oc >> 16) as u8 && b[5] == (oc >> 8) as u8 && b[6] == oc as u8;
            let mut i = 0;
            while i < 16 {
                if ok && b[7 + i] != d[i] {
                    ok = false;
                }
                i += 1;
            }
            vassert!(ok, "L:reply_layout_and_digest_of_their_challenge");
            vk::leak(b);
        }
        Err(e) => {
            vassert!(!r.g.have_challenge, "L:reply_available_after_challenge");
            vk::leak(e);
        }
    }
    inv(r);
}

/// ack from the peer: tag byte symbolic; digest bytes = D(x, cookie) XOR noise with x and the 16 noise
/// bytes symbolic (so every 17-byte string is covered, and the same values replay against real MD5);
/// accepted iff it is 'a' ++ D(our challenge of this handshake, cookie)
pub fn step_ack(r: &mut Run) {
    let mut m = [0u8; 17];
    m[0] = vk::u8();
    let x = vk::u32();
    let dx = digest_fn(x, COOKIE);
    let mut i = 0;
    while i < 16 {
        m[1 + i] = dx[i] ^ vk::u8();
        i += 1;
    }
    let res = r.sm.handle_challenge_ack(&m);
    let d = digest_fn(r.g.our_challenge, COOKIE);
    let mut matches = r.g.have_challenge && m[0] == b'a';
    i = 0;
    while i < 16 {
        if m[1 + i] != d[i] {
            matches = false;
        }
        i += 1;
    }
    match res {
        Ok(()) => {
            vassert!(matches, "L:ack_accepted_only_with_digest_of_our_challenge");
            r.g.valid_connected = true;
            vassert!(r.sm.state() == ConnectionState::Connected, "L:verified_ack_connects");
        }
        Err(e) => {
            vassert!(!matches, "L:correct_ack_accepted");
            vk::leak(e);
        }
    }
    inv(r);
}

pub fn step_disconnect(r: &mut Run) {
    r.sm.disconnect();
    r.g.have_challenge = false;
    r.g.valid_connected = false;
    vassert!(r.sm.state() == ConnectionState::Disconnected, "L:disconnect_state");
    vassert!(r.sm.negotiated_flags().is_none(), "L:disconnect_clears_flags");
    inv(r);
}

/// send_name layout for an arbitrary (concrete) local name: the length prefix counts *bytes*
pub fn send_name_layout(name: &str) {
    let mut r = new_run_named(name);
    match r.sm.prepare_send_name() {
        Ok(b) => {
            let n = name.as_bytes();
            let f = r.our_flags as u32;
            vassert!(b.len() == 2 + 7 + n.len(), "L:send_name_length");
            let mut ok = b[0] == ((7 + n.len()) >> 8) as u8 && b[1] == (7 + n.len()) as u8 && b[2] == b'n' && b[3] == 0 && b[4] == 5
                && b[5] == (f >> 24) as u8 && b[6] == (f >> 16) as u8 && b[7] == (f >> 8) as u8 && b[8] == f as u8;
            let mut i = 0;
            while i < n.len() && 9 + i < b.len() {
                if b[9 + i] != n[i] {
                    ok = false;
                }
                i += 1;
            }
            vassert!(ok, "L:send_name_layout");
            vk::leak(b);
        }
        Err(e) => {
            vassert!(false, "L:send_name_ok");
            vk::leak(e);
        }
    }
    vk::leak(r);
}
