//! C08 — control messages parse and serialise losslessly and use the protocol's numbering.
use crate::vassert;
use crate::vk;
use edp_client::control::ControlMessage;
use erltf::OwnedTerm;

/// `{tag, Integer(x1), .., Integer(xk)}` with symbolic xi
pub fn int_tuple<const K: usize>(tag: i64) -> (OwnedTerm, [i64; K]) {
    let mut xs = [0i64; K];
    let mut v: Vec<OwnedTerm> = Vec::with_capacity(K + 1);
    v.push(OwnedTerm::Integer(tag));
    let mut i = 0;
    while i < K {
        xs[i] = vk::i64();
        v.push(OwnedTerm::Integer(xs[i]));
        i += 1;
    }
    (OwnedTerm::Tuple(v), xs)
}

/// the tuple `t` is exactly `{tag, Integer(x1), .., Integer(xk)}`
pub fn is_int_tuple<const K: usize>(t: &OwnedTerm, tag: i64, xs: &[i64; K]) -> bool {
    match t {
        OwnedTerm::Tuple(v) => {
            if v.len() != K + 1 {
                return false;
            }
            if v[0].as_integer() != Some(tag) {
                return false;
            }
            let mut i = 0;
            while i < K {
                if v[i + 1].as_integer() != Some(xs[i]) {
                    return false;
                }
                i += 1;
            }
            true
        }
        _ => false,
    }
}

/// every tuple headed by an integer tag 0..=255 parses, and both serialisers give it back
pub fn parse_serialise<const K: usize>(tag: i64, unlink: bool) {
    let (t, xs) = int_tuple::<K>(tag);
    let r = ControlMessage::from_term(&t);
    match r {
        Ok(m) => {
            if unlink && K == 3 {
                vassert!(xs[0] >= 0, "L:unlink_negative_id_rejected");
            }
            let back = m.to_term();
            vassert!(is_int_tuple::<K>(&back, tag, &xs), "L:to_term_gives_back_the_tuple");
            let back2 = m.into_term();
            vassert!(is_int_tuple::<K>(&back2, tag, &xs), "L:into_term_gives_back_the_tuple");
            vk::leak(back);
            vk::leak(back2);
        }
        Err(e) => {
            vassert!(unlink && K == 3 && xs[0] < 0, "L:integer_headed_tuple_parses");
            vk::leak(e);
        }
    }
    vk::leak(t);
}

/// `m.to_term()` is `{tag, f1, .., fk}` in the protocol's field order (fields are distinct symbolic integers)
pub fn table_row<const K: usize>(m: ControlMessage, tag: i64, xs: [i64; K]) {
    let t = m.to_term();
    vassert!(is_int_tuple::<K>(&t, tag, &xs), "L:tag_arity_field_order_as_in_protocol");
    // and it parses back to the same message
    let r = ControlMessage::from_term(&t);
    match r {
        Ok(m2) => {
            let t2 = m2.to_term();
            vassert!(is_int_tuple::<K>(&t2, tag, &xs), "L:parses_back_to_same_message");
            vk::leak(t2);
            vk::leak(m2);
        }
        Err(e) => {
            vassert!(false, "L:own_output_parses");
            vk::leak(e);
        }
    }
    vk::leak(t);
    vk::leak(m);
}

pub fn i(x: i64) -> OwnedTerm {
    OwnedTerm::Integer(x)
}

/// heads that are not an integer in 0..=255, non-tuples and the empty tuple are rejected
pub fn rejects_bad_head() {
    let h = vk::i64();
    vk::assume(h < 0 || h > 255);
    let t = OwnedTerm::Tuple(vec![OwnedTerm::Integer(h), OwnedTerm::Integer(vk::i64())]);
    vassert!(ControlMessage::from_term(&t).is_err(), "L:out_of_range_head_rejected");
    vk::leak(t);
    let t = OwnedTerm::Tuple(vec![]);
    vassert!(ControlMessage::from_term(&t).is_err(), "L:empty_tuple_rejected");
    let t = OwnedTerm::Integer(vk::i64());
    vassert!(ControlMessage::from_term(&t).is_err(), "L:non_tuple_rejected");
    let t = OwnedTerm::Tuple(vec![OwnedTerm::Float(vk::f64_finite()), OwnedTerm::Integer(1)]);
    vassert!(ControlMessage::from_term(&t).is_err(), "L:non_integer_head_rejected");
    vk::leak(t);
}

/// re-write the niche word of a harness-built field so CBMC keeps its variant constant (see terms::pin_word0)
pub fn pin_int(t: &mut OwnedTerm) {
    let tag = unsafe { *(&OwnedTerm::Integer(0) as *const OwnedTerm as *const u64) };
    crate::terms::pin_word0(t, tag);
}

/// serialiser only: `m.to_term()` and `m.into_term()` are `{tag, f1..fk}` in protocol order
pub fn serialises_as<const K: usize>(m: ControlMessage, tag: i64, xs: [i64; K]) {
    let t = m.to_term();
    vassert!(is_int_tuple::<K>(&t, tag, &xs), "L:tag_arity_field_order_as_in_protocol");
    vk::leak(t);
    let t2 = m.into_term();
    vassert!(is_int_tuple::<K>(&t2, tag, &xs), "L:into_term_agrees");
    vk::leak(t2);
}


/// An unlink id is any u64 ("a non-negative integer of at most 64 bits"): one above i64::MAX must not be written as a negative
/// integer (which is a different value, and which from_term then rejects).
pub fn unlink_id_value_kept(m: &ControlMessage, x_id: i64) {
    let t = m.to_term();
    if let OwnedTerm::Tuple(es) = &t {
        if es.len() > 1 {
            if let OwnedTerm::Integer(v) = &es[1] {
                vassert!(*v >= 0 || x_id >= 0, "L:unlink_id_above_i64_max_written_as_a_negative_integer");
            }
        }
    }
    vk::leak(t);
}
