// scratch helpers
