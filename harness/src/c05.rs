//! C05 — framing is invariant under how the transport splits the byte stream.
//!
//! The futures returned by `read_framed` / `write_framed` are polled by hand with a no-op waker over a
//! harness reader/writer.  Chunk boundaries (and the position of one `Pending`) are enumerated
//! concretely inside the harness — all 2^(n-1) compositions of the stream — while every payload byte
//! is symbolic (a symbolic chunk size would make the length prefix, and with it `vec![0; len]`, symbolic).
use crate::vassert;
use crate::vk;
use edp_client::framing::{FrameMode, MessageDeframer, MessageFramer};
use std::future::Future;
use std::pin::{pin, Pin};
use std::task::{Context, Poll, Waker};
use tokio::io::{AsyncRead, AsyncWrite, ReadBuf};

pub fn block_on<F: Future>(f: F) -> F::Output {
    let mut f = pin!(f);
    let w = Waker::noop();
    let mut cx = Context::from_waker(&w);
    let mut spins = 0;
    loop {
        match f.as_mut().poll(&mut cx) {
            Poll::Ready(v) => return v,
            Poll::Pending => {
                spins += 1;
                assert!(spins < 4, "L:harness_reader_pends_at_most_once_per_chunk");
            }
        }
    }
}

/// reader that hands out `stream[..len]` cut after the positions whose bit is set in `cuts`
/// (bit k set = a read ends after byte k), returns `Pending` once before chunk `pend_chunk`, then EOF
pub struct Chunked {
    pub stream: [u8; 16],
    pub len: usize,
    pub pos: usize,
    pub cuts: u32,
    pub chunk_no: usize,
    pub pend_chunk: usize,
    pub pended: bool,
}
impl AsyncRead for Chunked {
    fn poll_read(mut self: Pin<&mut Self>, _cx: &mut Context<'_>, buf: &mut ReadBuf<'_>) -> Poll<std::io::Result<()>> {
        let me = &mut *self;
        if me.pos >= me.len {
            return Poll::Ready(Ok(())); // EOF
        }
        if me.chunk_no == me.pend_chunk && !me.pended {
            me.pended = true;
            return Poll::Pending;
        }
        // end of the current chunk
        let mut end = me.pos + 1;
        while end < me.len && (me.cuts >> (end - 1)) & 1 == 0 {
            end += 1;
        }
        let mut n = end - me.pos;
        if n > buf.remaining() {
            n = buf.remaining();
        }
        buf.put_slice(&me.stream[me.pos..me.pos + n]);
        me.pos += n;
        if me.pos == end {
            me.chunk_no += 1;
            me.pended = false;
        }
        Poll::Ready(Ok(()))
    }
}

pub struct Sink {
    pub b: [u8; 16],
    pub n: usize,
    pub max_per_write: usize,
}
impl AsyncWrite for Sink {
    fn poll_write(mut self: Pin<&mut Self>, _cx: &mut Context<'_>, buf: &[u8]) -> Poll<std::io::Result<usize>> {
        let me = &mut *self;
        let mut k = buf.len();
        if k > me.max_per_write {
            k = me.max_per_write;
        }
        let mut i = 0;
        while i < k {
            me.b[me.n] = buf[i];
            me.n += 1;
            i += 1;
        }
        Poll::Ready(Ok(k))
    }
    fn poll_flush(self: Pin<&mut Self>, _cx: &mut Context<'_>) -> Poll<std::io::Result<()>> {
        Poll::Ready(Ok(()))
    }
    fn poll_shutdown(self: Pin<&mut Self>, _cx: &mut Context<'_>) -> Poll<std::io::Result<()>> {
        Poll::Ready(Ok(()))
    }
}

fn mode_of(dist: bool) -> FrameMode {
    if dist { FrameMode::Distribution } else { FrameMode::Handshake }
}

/// writer: one-shot `frame_message` and streaming `write_framed` (the sink accepts at most `max_w`
/// bytes per write) emit the same bytes = big-endian length prefix ++ payload
pub fn writer_agrees<const L: usize>(dist: bool, max_w: usize) {
    let mut payload = [0u8; L];
    let mut i = 0;
    while i < L {
        payload[i] = vk::u8();
        i += 1;
    }
    let fr = MessageFramer::new(mode_of(dist));
    let one = fr.frame_message(&payload);
    let p = if dist { 4 } else { 2 };
    vassert!(one.len() == p + L, "L:frame_length");
    let mut ok = one[p - 1] == L as u8;
    i = 0;
    while i + 1 < p {
        if one[i] != 0 {
            ok = false;
        }
        i += 1;
    }
    i = 0;
    while i < L {
        if one[p + i] != payload[i] {
            ok = false;
        }
        i += 1;
    }
    vassert!(ok, "L:frame_is_prefix_then_payload");
    let mut sink = Sink { b: [0; 16], n: 0, max_per_write: max_w };
    let r = block_on(fr.write_framed(&mut sink, &payload));
    vassert!(r.is_ok(), "L:write_framed_ok");
    vassert!(sink.n == one.len(), "L:streaming_writer_same_length");
    i = 0;
    let mut same = true;
    while i < one.len() && i < 16 {
        if sink.b[i] != one[i] {
            same = false;
        }
        i += 1;
    }
    vassert!(same, "L:streaming_writer_same_bytes");
    vk::leak(one);
    vk::leak(r);
}

/// reader: two messages of lengths L1, L2 (symbolic bytes) framed by the real framer, then every way
/// of cutting the stream into reads, with one Pending before chunk `pend` (99 = none)
pub fn reader_all_chunkings<const L1: usize, const L2: usize>(dist: bool, pend: usize) {
    let mut m1 = [0u8; L1];
    let mut m2 = [0u8; L2];
    let mut i = 0;
    while i < L1 {
        m1[i] = vk::u8();
        i += 1;
    }
    i = 0;
    while i < L2 {
        m2[i] = vk::u8();
        i += 1;
    }
    let p = if dist { 4 } else { 2 };
    let n = 2 * p + L1 + L2;
    let mut stream = [0u8; 16];
    // reference framing (written from the protocol: big-endian length, then the bytes)
    stream[p - 1] = L1 as u8;
    i = 0;
    while i < L1 {
        stream[p + i] = m1[i];
        i += 1;
    }
    stream[p + L1 + p - 1] = L2 as u8;
    i = 0;
    while i < L2 {
        stream[2 * p + L1 + i] = m2[i];
        i += 1;
    }
    let de = MessageDeframer::new(mode_of(dist));
    let mut cuts: u32 = 0;
    while cuts < (1u32 << (n - 1)) {
        let mut rd = Chunked { stream, len: n, pos: 0, cuts, chunk_no: 0, pend_chunk: pend, pended: false };
        match block_on(de.read_framed(&mut rd)) {
            Ok(a) => {
                let mut same = a.len() == L1;
                i = 0;
                while i < L1 && i < a.len() {
                    if a[i] != m1[i] {
                        same = false;
                    }
                    i += 1;
                }
                vassert!(same, "L:first_message_intact_under_chunking");
                vk::leak(a);
            }
            Err(e) => {
                vassert!(false, "L:first_message_read_ok");
                vk::leak(e);
            }
        }
        match block_on(de.read_framed(&mut rd)) {
            Ok(b) => {
                let mut same = b.len() == L2;
                i = 0;
                while i < L2 && i < b.len() {
                    if b[i] != m2[i] {
                        same = false;
                    }
                    i += 1;
                }
                vassert!(same, "L:second_message_intact_under_chunking");
                vk::leak(b);
            }
            Err(e) => {
                vassert!(false, "L:second_message_read_ok");
                vk::leak(e);
            }
        }
        vassert!(rd.pos == n, "L:whole_stream_consumed");
        cuts += 1;
    }
}

/// a declared length above the cap is refused with InvalidData before any body is read (an
/// "allocate, then read" implementation would report UnexpectedEof); EOF inside a frame is UnexpectedEof
pub fn reader_errors(declared: u32, have: usize) {
    let mut stream = [0u8; 16];
    let d = declared.to_be_bytes();
    stream[0] = d[0];
    stream[1] = d[1];
    stream[2] = d[2];
    stream[3] = d[3];
    let mut i = 0;
    while i < have {
        stream[4 + i] = vk::u8();
        i += 1;
    }
    let de = MessageDeframer::new(FrameMode::Distribution);
    let mut rd = Chunked { stream, len: 4 + have, pos: 0, cuts: 0, chunk_no: 0, pend_chunk: 99, pended: false };
    match block_on(de.read_framed(&mut rd)) {
        Ok(v) => {
            vassert!(false, "L:short_or_oversize_frame_is_an_error");
            vk::leak(v);
        }
        Err(e) => {
            if declared as usize > 256 * 1024 * 1024 {
                vassert!(e.kind() == std::io::ErrorKind::InvalidData, "L:oversize_refused_before_reading");
                vassert!(rd.pos == 4, "L:oversize_body_not_read");
            } else {
                vassert!(e.kind() == std::io::ErrorKind::UnexpectedEof, "L:eof_inside_frame_is_unexpected_eof");
            }
            vk::leak(e);
        }
    }
}
