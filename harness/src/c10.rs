//! C10 — identifiers received from a peer are re-emitted byte-for-byte.
//!
//! Decided as a chain (no query holds a decoded term *and* re-encodes it, which CBMC cannot finish
//! for identifier variants): D: decoding `LOCAL_EXT hash8 <identifier>` yields the identifier with
//! exactly the bytes after the LOCAL_EXT tag preserved; E: encoding an identifier that carries
//! preserved bytes emits `LOCAL_EXT` followed by exactly those bytes, also after clone /
//! to-borrowed / to-owned conversions and inside a tuple.  Logical ==/hash/cmp across the two forms
//! are decided by C11/C12 on the `pidl`/`portl`/`refl` shapes.
use crate::refetf::*;
use crate::terms::*;
use crate::vassert;
use crate::vk;
use erltf::{BorrowedTerm, OwnedTerm};

/// which: 0 pid, 1 port, 2 reference
fn local_bytes_of(t: &OwnedTerm) -> Option<&[u8]> {
    match t {
        OwnedTerm::Pid(p) => p.local_ext_bytes.as_ref().map(|b| &b[..]),
        OwnedTerm::Port(p) => p.local_ext_bytes.as_ref().map(|b| &b[..]),
        OwnedTerm::Reference(p) => p.local_ext_bytes.as_ref().map(|b| &b[..]),
        _ => None,
    }
}

/// D: decode keeps the raw bytes
pub fn decode_preserves(r: &RV) {
    let mut out = Out::new();
    out.push(131);
    out.push(121);
    let mut i = 0;
    while i < 8 {
        out.push(vk::u8());
        i += 1;
    }
    emit(r, &MODERN, &mut out);
    match erltf::decode(out.bytes()) {
        Ok(d) => {
            vassert!(denotes(&d, r), "L:local_ext_decodes_to_identifier");
            match local_bytes_of(&d) {
                Some(lb) => {
                    let mut same = lb.len() == out.n - 2;
                    i = 0;
                    while i < lb.len() && 2 + i < out.n {
                        if lb[i] != out.b[2 + i] {
                            same = false;
                        }
                        i += 1;
                    }
                    vassert!(same, "L:raw_local_ext_bytes_preserved");
                }
                None => vassert!(false, "L:raw_local_ext_bytes_kept"),
            }
            vk::leak(d);
        }
        Err(e) => {
            vassert!(false, "L:local_ext_accepted");
            vk::leak(e);
        }
    }
}

fn emits_local(t: &OwnedTerm, raw: &[u8], prefix: &[u8]) {
    match erltf::encode(t) {
        Ok(b) => {
            // [131] ++ prefix ++ [121] ++ raw
            let mut ok = b.len() == 1 + prefix.len() + 1 + raw.len() && b[0] == 131;
            let mut i = 0;
            while i < prefix.len() && 1 + i < b.len() {
                if b[1 + i] != prefix[i] {
                    ok = false;
                }
                i += 1;
            }
            if ok && b[1 + prefix.len()] != 121 {
                ok = false;
            }
            i = 0;
            while i < raw.len() && 2 + prefix.len() + i < b.len() {
                if b[2 + prefix.len() + i] != raw[i] {
                    ok = false;
                }
                i += 1;
            }
            vassert!(ok, "L:reemitted_byte_for_byte");
            vk::leak(b);
        }
        Err(e) => {
            vassert!(false, "L:encode_ok");
            vk::leak(e);
        }
    }
}

/// E: encode replays the raw bytes — bare, after clone, after borrowed round trip, inside a 1-tuple
pub fn encode_replays(t: OwnedTerm, conv: u8) {
    let raw: Vec<u8> = match local_bytes_of(&t) {
        Some(b) => b.to_vec(),
        None => {
            vassert!(false, "L:harness_term_has_local_bytes");
            return;
        }
    };
    if conv == 0 {
        emits_local(&t, &raw, &[]);
    } else if conv == 1 {
        let c = t.clone();
        emits_local(&c, &raw, &[]);
        vk::leak(c);
    } else if conv == 2 {
        let b = BorrowedTerm::from(&t);
        let o = b.to_owned();
        emits_local(&o, &raw, &[]);
        vk::leak(o);
        vk::leak(b);
    } else {
        let mut v = Vec::with_capacity(1);
        v.push(t);
        let tup = OwnedTerm::Tuple(v);
        emits_local(&tup, &raw, &[104, 1]);
        vk::leak(tup);
        vk::leak(raw);
        return;
    }
    vk::leak(raw);
    vk::leak(t);
}

// ---------------------------------------------------------------- logical ==/hash/cmp on the identifier types themselves
use erltf::types::{ExternalPid, ExternalPort, ExternalReference};
use std::cmp::Ordering;
use std::hash::Hash;

fn rec_of<T: Hash>(t: &T) -> Rec {
    let mut r = Rec::new();
    t.hash(&mut r);
    r
}

fn ident_laws<T: Ord + Hash>(a: &T, b: &T, logical_eq: bool) {
    vassert!((a == b) == logical_eq, "L:ident_eq_is_logical_fields_only");
    let ab = a.cmp(b);
    vassert!(ab == b.cmp(a).reverse(), "L:ident_cmp_antisym");
    vassert!((ab == Ordering::Equal) == logical_eq, "L:ident_cmp_equal_iff_logical_eq");
    vassert!(a.partial_cmp(b) == Some(ab), "L:ident_partial_cmp_agrees");
    if logical_eq {
        vassert!(rec_of(a).same(&rec_of(b)), "L:ident_hash_ignores_local_form");
    }
}

/// form: 0 = plain vs node-local, 1 = node-local vs node-local (independent hash bytes)
pub fn pid_laws(form: u8) {
    let (n1, n2) = (crate::terms::ascii::<1>(), crate::terms::ascii::<1>());
    let (i1, s1, c1) = (vk::u32(), vk::u32(), vk::u32());
    let (i2, s2, c2) = (vk::u32(), vk::u32(), vk::u32());
    let a = if form == 0 {
        ExternalPid::new(atom_of(&n1), i1, s1, c1)
    } else {
        ExternalPid::with_local_ext_bytes(atom_of(&n1), i1, s1, c1, local_bytes())
    };
    let b = ExternalPid::with_local_ext_bytes(atom_of(&n2), i2, s2, c2, local_bytes());
    ident_laws(&a, &b, n1 == n2 && i1 == i2 && s1 == s2 && c1 == c2);
    vk::leak(a);
    vk::leak(b);
}
pub fn port_laws(form: u8) {
    let (n1, n2) = (crate::terms::ascii::<1>(), crate::terms::ascii::<1>());
    let (i1, c1) = (vk::u64(), vk::u32());
    let (i2, c2) = (vk::u64(), vk::u32());
    let a = if form == 0 {
        ExternalPort::new(atom_of(&n1), i1, c1)
    } else {
        ExternalPort::with_local_ext_bytes(atom_of(&n1), i1, c1, local_bytes())
    };
    let b = ExternalPort::with_local_ext_bytes(atom_of(&n2), i2, c2, local_bytes());
    ident_laws(&a, &b, n1 == n2 && i1 == i2 && c1 == c2);
    vk::leak(a);
    vk::leak(b);
}
pub fn ref_laws(form: u8) {
    let (n1, n2) = (crate::terms::ascii::<1>(), crate::terms::ascii::<1>());
    let (w1, c1) = (vk::u32(), vk::u32());
    let (w2, c2) = (vk::u32(), vk::u32());
    let a = if form == 0 {
        ExternalReference::new(atom_of(&n1), c1, [w1].to_vec())
    } else {
        ExternalReference::with_local_ext_bytes(atom_of(&n1), c1, [w1].to_vec(), local_bytes())
    };
    let b = ExternalReference::with_local_ext_bytes(atom_of(&n2), c2, [w2].to_vec(), local_bytes());
    ident_laws(&a, &b, n1 == n2 && w1 == w2 && c1 == c2);
    vk::leak(a);
    vk::leak(b);
}

/// C: a conversion keeps the preserved bytes on the identifier (field-level; no encoder in the query)
pub fn conversion_preserves(t: OwnedTerm, conv: u8) {
    let raw: Vec<u8> = match local_bytes_of(&t) {
        Some(b) => b.to_vec(),
        None => {
            vassert!(false, "L:harness_term_has_local_bytes");
            return;
        }
    };
    let o = if conv == 1 {
        t.clone()
    } else {
        let b = BorrowedTerm::from(&t);
        let mut o = b.to_owned();
        vk::leak(b);
        if conv == 5 {
            // a reference with one id word: word 0 of the niche-encoded term is the ids capacity
            pin_word0(&mut o, 1);
        }
        o
    };
    match local_bytes_of(&o) {
        Some(lb) => {
            let mut same = lb.len() == raw.len();
            let mut i = 0;
            while i < lb.len() && i < raw.len() {
                if lb[i] != raw[i] {
                    same = false;
                }
                i += 1;
            }
            vassert!(same, "L:conversion_keeps_local_ext_bytes");
        }
        None => vassert!(false, "L:conversion_keeps_local_ext_form"),
    }
    if conv < 4 {
        vassert!(o == t, "L:conversion_keeps_value");
    }
    vk::leak(o);
    vk::leak(raw);
    vk::leak(t);
}
