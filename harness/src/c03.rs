//! C03 — every valid external encoding of a value decodes to exactly that value; trailing bytes are an error.
use crate::refetf::*;
use crate::terms::*;
use crate::vassert;
use crate::vk;
use erltf::errors::DecodeError;
use erltf::OwnedTerm;

/// decode(bytes) is Ok and denotes r
pub fn decodes_to(bytes: &[u8], r: &RV) {
    match erltf::decode(bytes) {
        Ok(d) => {
            vassert!(denotes(&d, r), "L:admissible_encoding_decodes_to_value");
            vk::leak(d);
        }
        Err(e) => {
            vassert!(false, "L:admissible_encoding_accepted");
            vk::leak(e);
        }
    }
}

/// encoding of r under alternative `alt`, as emitted by the reference
pub fn alt_case(r: &RV, alt: &Alt) {
    let mut out = Out::new();
    out.push(131);
    emit(r, alt, &mut out);
    vassert!(accepts(out.bytes(), r), "L:reference_bytes_encode_r");
    decodes_to(out.bytes(), r);
}

/// one complete term followed by a symbolic extra byte: `decode` must report TrailingData,
/// `decode_with_trailing` must return the term and exactly that byte
pub fn trailing_case(r: &RV, alt: &Alt) {
    let mut out = Out::new();
    out.push(131);
    emit(r, alt, &mut out);
    let n = out.n;
    out.push(vk::u8());
    match erltf::decode(out.bytes()) {
        Ok(d) => {
            vassert!(false, "L:trailing_bytes_rejected");
            vk::leak(d);
        }
        Err(e) => {
            vassert!(matches!(e, DecodeError::TrailingData(1)), "L:trailing_error_kind");
            vk::leak(e);
        }
    }
    match erltf::decoder::decode_with_trailing(out.bytes()) {
        Ok((d, rest)) => {
            vassert!(denotes(&d, r), "L:with_trailing_term");
            vassert!(rest.len() == 1 && rest[0] == out.b[n], "L:with_trailing_rest");
            vk::leak(d);
        }
        Err(e) => {
            vassert!(false, "L:with_trailing_ok");
            vk::leak(e);
        }
    }
}

/// ATOM_EXT / SMALL_ATOM_EXT carry Latin-1: one byte >= 0x80 denotes the code point of that value
pub fn latin1_atom(tag: u8) {
    let c = vk::u8();
    vk::assume(c >= 0x80);
    let mut out = Out::new();
    out.push(131);
    out.push(tag);
    if tag == 115 {
        out.push(1);
    } else {
        out.push(0);
        out.push(1);
    }
    out.push(c);
    let name = vec![0xC0 | (c >> 6), 0x80 | (c & 0x3f)];
    decodes_to(out.bytes(), &RV::Atom(name));
}

/// STRING_EXT: N bytes denote the list of those small integers
pub fn string_ext<const N: usize>() {
    let mut out = Out::new();
    out.push(131);
    out.push(107);
    out.push(0);
    out.push(N as u8);
    let mut es = Vec::with_capacity(N);
    let mut i = 0;
    while i < N {
        let c = vk::u8();
        out.push(c);
        es.push(RV::Int(c as i128));
        i += 1;
    }
    let r = if N == 0 { RV::Nil } else { RV::List(es, Box::new(RV::Nil)) };
    decodes_to(out.bytes(), &r);
}

/// LOCAL_EXT: 8 opaque hash bytes wrapped around an identifier denote that identifier
pub fn local_ext(r: &RV) {
    let mut out = Out::new();
    out.push(131);
    out.push(121);
    let mut i = 0;
    while i < 8 {
        out.push(vk::u8());
        i += 1;
    }
    emit(r, &MODERN, &mut out);
    decodes_to(out.bytes(), r);
}

/// two Latin-1 bytes, both >= 0x80 (some such pairs happen to be well-formed UTF-8 — they still denote two code points)
pub fn latin1_atom2(tag: u8) {
    let (c, d) = (vk::u8(), vk::u8());
    vk::assume(c >= 0x80 && d >= 0x80);
    let mut out = Out::new();
    out.push(131);
    out.push(tag);
    if tag == 115 {
        out.push(2);
    } else {
        out.push(0);
        out.push(2);
    }
    out.push(c);
    out.push(d);
    let name = vec![0xC0 | (c >> 6), 0x80 | (c & 0x3f), 0xC0 | (d >> 6), 0x80 | (d & 0x3f)];
    decodes_to(out.bytes(), &RV::Atom(name));
}
