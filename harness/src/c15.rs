//! C15 — serde round trip returns the original Rust value, also across the wire.
//!
//! Term level: `from_term(to_term(v)) == v` per concrete Rust type.  Wire level: `to_bytes` is
//! `encode(to_term(v))` and `from_bytes` is `from_term(decode(bytes))`; C01 decides that the encoder
//! emits the reference encoding of the value, so the wire harnesses start from the reference bytes of
//! the value's width class (concrete length), run the real decoder and the real deserializer, and
//! require the original value back.
use crate::refetf::*;
use crate::terms::RV;
use crate::vassert;
use crate::vk;
use erltf_serde::{from_term, to_term};
use serde::de::DeserializeOwned;
use serde::Serialize;

pub fn term_rt<T: Serialize + DeserializeOwned + PartialEq>(v: T) {
    match to_term(&v) {
        Ok(t) => {
            match from_term::<T>(&t) {
                Ok(back) => vassert!(back == v, "L:term_roundtrip_value"),
                Err(e) => {
                    vassert!(false, "L:term_roundtrip_ok");
                    vk::leak(e);
                }
            }
            vk::leak(t);
        }
        Err(e) => {
            vassert!(false, "L:to_term_ok");
            vk::leak(e);
        }
    }
}

/// the serializer maps the integer to a term denoting it (so the C01 chain applies to `to_bytes`)
pub fn to_term_denotes_int<T: Serialize + Copy + Into<i128>>(v: T) {
    match to_term(&v) {
        Ok(t) => {
            vassert!(denotes(&t, &RV::Int(v.into())), "L:to_term_denotes_value");
            vk::leak(t);
        }
        Err(e) => {
            vassert!(false, "L:to_term_ok");
            vk::leak(e);
        }
    }
}

/// wire: reference bytes of integer `x` in width class (int_mode, digits) -> decode -> from_term::<T>
pub fn wire_int<T: DeserializeOwned + PartialEq + Copy + Into<i128>>(v: T, int_mode: u8, digits: usize) {
    let mut out = Out::new();
    out.push(131);
    let r = RV::Int(v.into());
    emit(&r, &Alt { int: int_mode, pad: digits, ..MODERN }, &mut out);
    vassert!(accepts(out.bytes(), &r), "L:reference_bytes_encode_v");
    match erltf::decode(out.bytes()) {
        Ok(d) => {
            match from_term::<T>(&d) {
                Ok(back) => vassert!(back == v, "L:wire_roundtrip_value"),
                Err(e) => {
                    vassert!(false, "L:wire_roundtrip_ok");
                    vk::leak(e);
                }
            }
            vk::leak(d);
        }
        Err(e) => {
            vassert!(false, "L:decode_ok");
            vk::leak(e);
        }
    }
}

/// wire: a char travels as the binary of its UTF-8 bytes (encode_string); N = UTF-8 length
pub fn wire_char<const N: usize>() {
    let c = vk::char();
    vk::assume(c.len_utf8() == N);
    let mut buf = [0u8; 4];
    let s = c.encode_utf8(&mut buf);
    let mut out = Out::new();
    out.push(131);
    out.push(109);
    out.push(0);
    out.push(0);
    out.push(0);
    out.push(N as u8);
    let mut i = 0;
    while i < N {
        out.push(s.as_bytes()[i]);
        i += 1;
    }
    match erltf::decode(out.bytes()) {
        Ok(d) => {
            match from_term::<char>(&d) {
                Ok(back) => vassert!(back == c, "L:wire_roundtrip_value"),
                Err(e) => {
                    vassert!(false, "L:wire_roundtrip_ok");
                    vk::leak(e);
                }
            }
            vk::leak(d);
        }
        Err(e) => {
            vassert!(false, "L:decode_ok");
            vk::leak(e);
        }
    }
}

/// deserialising the String term a char is serialised to (built here with a concrete byte length N,
/// because `char::to_string()` inside `to_term` is a symbolic-size allocation under CBMC)
pub fn deser_char_string<const N: usize>() {
    let c = vk::char();
    vk::assume(c.len_utf8() == N);
    let mut buf = [0u8; 4];
    let _ = c.encode_utf8(&mut buf);
    let mut v = Vec::with_capacity(N);
    let mut i = 0;
    while i < N {
        v.push(buf[i]);
        i += 1;
    }
    let t = erltf::OwnedTerm::String(unsafe { String::from_utf8_unchecked(v) });
    match from_term::<char>(&t) {
        Ok(back) => vassert!(back == c, "L:term_roundtrip_value"),
        Err(e) => {
            vassert!(false, "L:term_roundtrip_ok");
            vk::leak(e);
        }
    }
    vk::leak(t);
}


/// wire: NIL_EXT / a one-element LIST_EXT read back as a sequence and as an optional sequence.  `None` travels as the atom
/// `undefined`, so an empty list must come back as `Some(vec![])`, never as `None`.
pub fn wire_seq(n: u8, optional: bool) {
    let x = vk::u8();
    let mut out = Out::new();
    out.push(131);
    if n == 0 {
        out.push(106);
    } else {
        out.push(108);
        out.push(0);
        out.push(0);
        out.push(0);
        out.push(1);
        out.push(97);
        out.push(x);
        out.push(106);
    }
    match erltf::decode(out.bytes()) {
        Ok(d) => {
            if optional {
                match from_term::<Option<Vec<u8>>>(&d) {
                    Ok(Some(v)) => {
                        vassert!(v.len() == n as usize && (n == 0 || v[0] == x), "L:wire_roundtrip_value");
                        vk::leak(v);
                    }
                    Ok(None) => vassert!(false, "L:wire_some_sequence_is_not_none"),
                    Err(e) => {
                        vassert!(false, "L:wire_roundtrip_ok");
                        vk::leak(e);
                    }
                }
            } else {
                match from_term::<Vec<u8>>(&d) {
                    Ok(v) => {
                        vassert!(v.len() == n as usize && (n == 0 || v[0] == x), "L:wire_roundtrip_value");
                        vk::leak(v);
                    }
                    Err(e) => {
                        vassert!(false, "L:wire_roundtrip_ok");
                        vk::leak(e);
                    }
                }
            }
            vk::leak(d);
        }
        Err(e) => {
            vassert!(false, "L:wire_decode_ok");
            vk::leak(e);
        }
    }
}
