// Kani's kani_lib.c + T4 (word-typed heap objects, up to 4 KiB)
// Copyright Kani Contributors
// SPDX-License-Identifier: Apache-2.0 OR MIT
#include <stddef.h>
#include <stdint.h>

// Declare functions instead of importing more headers in order to avoid conflicting definitions.
// See https://github.com/model-checking/kani/issues/1774 for more details.
void  free(void *ptr);
void *memcpy(void *dst, const void *src, size_t n);
void *calloc(size_t nmemb, size_t size);
void *malloc(size_t size);

/// Mapping unit to `void` works for functions with no return type but not for
/// variables with type unit. We treat both uniformly by declaring an empty
/// struct type: `struct Unit {}` and a global variable `struct Unit VoidUnit`
/// returned by all void functions (both declared by the Kani compiler).
struct Unit;
extern struct Unit VoidUnit;

// `assert` then `assume`
#define __KANI_assert(cond, msg)            \
    do {                                    \
        __CPROVER_bool __KANI_temp = (cond);          \
        __CPROVER_assert(__KANI_temp, msg); \
        __CPROVER_assume(__KANI_temp);      \
    } while (0)

// Check that the input is either a power of 2, or 0. Algorithm from Hackers Delight.
__CPROVER_bool __KANI_is_nonzero_power_of_two(size_t i) { return (i != 0) && (i & (i - 1)) == 0; }

// This is a C implementation of the __rust_alloc function.
// https://stdrs.dev/nightly/x86_64-unknown-linux-gnu/alloc/alloc/fn.__rust_alloc.html
// It has the following Rust signature:
//   `unsafe fn __rust_alloc(size: usize, align: usize) -> *mut u8`
// This low-level function is called by std::alloc:alloc, and its
// implementation is provided by the compiler backend, so we need to provide an
// implementation for it to prevent verification failure due to missing function
// definition.
// For safety, refer to the documentation of GlobalAlloc::alloc:
// https://doc.rust-lang.org/std/alloc/trait.GlobalAlloc.html#tymethod.alloc
uint8_t *__rust_alloc(size_t size, size_t align)
{
    __KANI_assert(size > 0, "__rust_alloc must be called with a size greater than 0");
    // TODO: Ensure we are doing the right thing with align
    // https://github.com/model-checking/kani/issues/1168
    __KANI_assert(__KANI_is_nonzero_power_of_two(align), "Alignment is power of two");
    // T4: word-typed object: lets CBMC's field sensitivity keep constants (enum niches) stored on the heap
    if ((size & 7) == 0 && size <= 4096) return (uint8_t *)malloc((size >> 3) * sizeof(uint64_t));
    return malloc(size);
}

// This is a C implementation of the __rust_alloc_zeroed function.
// https://stdrs.dev/nightly/x86_64-unknown-linux-gnu/alloc/alloc/fn.__rust_alloc_zeroed.html
// It has the following Rust signature:
//   unsafe fn __rust_alloc_zeroed(size: usize, align: usize) -> *mut u8
// This low-level function is called by std::alloc:alloc_zeroed, and its
// implementation is provided by the compiler backend, so we need to provide an
// implementation for it to prevent verification failure due to missing function
// definition.
// For safety, refer to the documentation of GlobalAlloc::alloc_zeroed:
// hhttps://doc.rust-lang.org/std/alloc/fn.alloc_zeroed.html
uint8_t *__rust_alloc_zeroed(size_t size, size_t align)
{
    __KANI_assert(size > 0, "__rust_alloc_zeroed must be called with a size greater than 0");
    // TODO: Ensure we are doing the right thing with align
    // https://github.com/model-checking/kani/issues/1168
    __KANI_assert(__KANI_is_nonzero_power_of_two(align), "Alignment is power of two");
    return calloc(1, size);
}

// This is a C implementation of the __rust_dealloc function.
// https://stdrs.dev/nightly/x86_64-unknown-linux-gnu/alloc/alloc/fn.__rust_dealloc.html
// It has the following Rust signature:
//   `unsafe fn __rust_dealloc(ptr: *mut u8, size: usize, align: usize)`
// This low-level function is called by std::alloc:dealloc, and its
// implementation is provided by the compiler backend, so we need to provide an
// implementation for it to prevent verification failure due to missing function
// definition.
// For safety, refer to the documentation of GlobalAlloc::dealloc:
// https://doc.rust-lang.org/std/alloc/trait.GlobalAlloc.html#tymethod.dealloc
struct Unit __rust_dealloc(uint8_t *ptr, size_t size, size_t align)
{
    // TODO: Ensure we are doing the right thing with align
    // https://github.com/model-checking/kani/issues/1168
    __KANI_assert(__KANI_is_nonzero_power_of_two(align), "Alignment is power of two");

    __KANI_assert(__CPROVER_OBJECT_SIZE(ptr) == size,
                  "rust_dealloc must be called on an object whose allocated size matches its layout");
    free(ptr);
    return VoidUnit;
}

// This is a C implementation of the __rust_realloc function that has the following signature:
//     fn __rust_realloc(ptr: *mut u8, old_size: usize, align: usize, new_size: usize) -> *mut u8;
// This low-level function is called by std::alloc:realloc, and its
// implementation is provided by the compiler backend, so we need to provide an
// implementation for it to prevent verification failure due to missing function
// definition.
// For safety, refer to the documentation of GlobalAlloc::realloc:
// https://doc.rust-lang.org/std/alloc/trait.GlobalAlloc.html#method.realloc
uint8_t *__rust_realloc(uint8_t *ptr, size_t old_size, size_t align, size_t new_size)
{
    // Passing a NULL pointer is undefined behavior
    __KANI_assert(ptr != 0, "rust_realloc must be called with a non-null pointer");

    // Passing a new_size of 0 is undefined behavior
    __KANI_assert(new_size > 0, "rust_realloc must be called with a size greater than 0");

    // TODO: Ensure we are doing the right thing with align
    // https://github.com/model-checking/kani/issues/1168
    __KANI_assert(__KANI_is_nonzero_power_of_two(align), "Alignment is power of two");

    uint8_t *result = malloc(new_size);
    if (result) {
        size_t bytes_to_copy = new_size < old_size ? new_size : old_size;
        memcpy(result, ptr, bytes_to_copy);
        free(ptr);
    }

    return result;
}

// Function required by the linker, see https://github.com/rust-lang/rust/pull/141061
struct Unit __rust_no_alloc_shim_is_unstable_v2(void)
{
    return VoidUnit;
}
