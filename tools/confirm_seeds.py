#!/usr/bin/env python3
"""Independent confirmation of the seeded changes in seeded/_incoming: for each one, in a scratch worktree
(never /repo): the demo passes on the clean tree, the patch applies, the workspace compiles, the demo fails
with the patch, and the existing suites of the four offline crates still pass.  Writes seeded/confirm.json."""
import glob, json, os, subprocess, sys
WT = "/tmp/repo_conf"
CRATE = {"C20": {"m1": "edp_elixir_terms", "m2": "edp_elixir_terms", "m3": "erltf", "m4": "edp_elixir_terms", "m5": "edp_elixir_terms", "m6": "edp_elixir_terms"}, "C11": "erltf", "C12": "erltf", "C01": "erltf",
         "C02": "erltf", "C13": "erltf", "C04": "edp_client", "C05": "edp_client", "C09": "edp_client",
         "C16": {"m1": "edp_client", "m2": "edp_client", "m3": "edp_node"}, "C15": "erltf_serde", "C03": "erltf", "C08": "edp_client", "C10": "erltf"}
env = dict(os.environ, CARGO_TARGET_DIR="/tmp/repo_conf_target", CARGO_NET_OFFLINE="true")
env.pop("RUSTFLAGS", None)


def sh(cmd, **kw):
    return subprocess.run(cmd, stdout=subprocess.PIPE, stderr=subprocess.STDOUT, text=True, env=env, **kw)


def main():
    only = sys.argv[1:] 
    head = sh(["git", "-C", "/repo", "rev-parse", "HEAD"]).stdout.strip()
    if not os.path.isdir(WT):
        sh(["git", "-C", "/repo", "worktree", "add", "--detach", WT, head])
    out_path = "/verif/seeded/confirm.json"
    res = json.load(open(out_path)) if os.path.exists(out_path) else {}
    for d in sorted(glob.glob("/verif/seeded/_incoming/seed_*/m*")):
        prop = d.split("seed_")[1].split("/")[0]
        m = os.path.basename(d)
        key = "%s-%s" % (prop, m)
        if only and key not in only and prop not in only:
            continue
        if key in res and res[key].get("head") == head:
            continue
        c = CRATE[prop]
        crate = c[m] if isinstance(c, dict) else c
        demos = glob.glob(d + "/seed_demo_*.rs")
        if not demos:
            res[key] = {"ok": False, "why": "no demo"}
            continue
        demo = demos[0]
        tname = os.path.basename(demo)[:-3]
        sh(["git", "-C", WT, "checkout", "--detach", head]); sh(["git", "-C", WT, "checkout", "--", "."]); sh(["git", "-C", WT, "clean", "-fdq", "crates"])
        dst = os.path.join(WT, "crates", crate, "tests", os.path.basename(demo))
        open(dst, "w").write(open(demo).read())
        r = {"head": head, "crate": crate}
        p = sh(["cargo", "test", "--offline", "-j", "4", "-p", crate, "--test", tname], cwd=WT)
        r["clean_demo_passes"] = p.returncode == 0
        a = sh(["git", "-C", WT, "apply", d + "/patch.diff"])
        r["applies"] = a.returncode == 0
        if r["applies"]:
            p = sh(["cargo", "test", "--offline", "-j", "4", "-p", crate, "--test", tname], cwd=WT)
            r["mutant_demo_fails"] = p.returncode != 0 and ("FAILED" in p.stdout or "panicked" in p.stdout)
            os.remove(dst)
            p = sh(["cargo", "test", "--offline", "-j", "4", "--no-fail-fast", "-p", "erltf", "-p", "erltf_serde", "-p", "edp_client", "-p", "edp_elixir_terms"], cwd=WT)
            fails = [l for l in p.stdout.splitlines() if l.startswith("test ") and l.endswith("FAILED") and "timeout_independently" not in l]
            r["suite_passes_with_mutant"] = not fails and "error: could not compile" not in p.stdout
            r["suite_failures"] = fails[:5]
            if crate == "edp_node":
                b = sh(["cargo", "build", "--offline", "-j", "4", "-p", "edp_node"], cwd=WT)
                r["suite_passes_with_mutant"] = r["suite_passes_with_mutant"] and b.returncode == 0
        r["ok"] = bool(r.get("clean_demo_passes") and r.get("applies") and r.get("mutant_demo_fails") and r.get("suite_passes_with_mutant"))
        res[key] = r
        json.dump(res, open(out_path, "w"), indent=1, sort_keys=True)
        print(key, r["ok"], {k: v for k, v in r.items() if k not in ("head",)}, flush=True)
    sh(["git", "-C", WT, "checkout", "--", "."])


main()
