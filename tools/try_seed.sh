#!/bin/sh
# tools/try_seed.sh <property> <patch.diff> [tier]
# Applies a seeded change in a scratch worktree of /repo (never /repo itself) and runs the check on it.
prop="$1"; patch="$2"; tier="${3:-quick}"
alt=/tmp/repo_alt
lock=/tmp/repo_alt.lock
exec 9>"$lock"; flock 9
if [ ! -d "$alt" ]; then git -C /repo worktree add -q --detach "$alt" HEAD || exit 9; fi
git -C "$alt" checkout -q --detach "$(git -C /repo rev-parse HEAD)" && git -C "$alt" checkout -q -- . && git -C "$alt" clean -fdq crates
git -C "$alt" apply "$patch" || { echo "patch does not apply"; exit 9; }
cd /verif
VERIF_REPO="$alt" VERIF_SKIP_SELFTEST=1 ./check "$prop" --tier "$tier" --no-evidence > "/tmp/seedrun_$$.log" 2>&1
rc=$?
git -C "$alt" checkout -q -- .
grep -E "^VIOLATION|^SUMMARY|^INCONCLUSIVE" "/tmp/seedrun_$$.log" | cut -c1-200 | head -8
echo "exit=$rc log=/tmp/seedrun_$$.log"
