#!/usr/bin/env python3
"""Runs the repository's test suite with the verification guard OFF and compares with
/root/.vp/BASELINE.json: every stable_pass test must pass.  Exit 0 iff none is missing."""
import json, os, re, subprocess, sys
base = json.load(open("/root/.vp/BASELINE.json"))
stable = set(base["stable_pass"])
env = dict(os.environ, CARGO_NET_OFFLINE="true")
env.pop("RUSTFLAGS", None)
p = subprocess.run(["cargo", "test", "--workspace", "--no-fail-fast", "--offline"], cwd="/repo",
                   stdout=subprocess.PIPE, stderr=subprocess.STDOUT, text=True, env=env)
passed = set()
crate = binary = None
for line in p.stdout.splitlines():
    m = re.match(r"\s*Running (unittests )?(\S+) \(target/debug/deps/([A-Za-z0-9_]+)-[0-9a-f]+\)", line)
    if m:
        path = m.group(2)
        binary = m.group(3)
        mm = re.match(r"(?:crates/)?([^/]+)/", path)
        # cargo prints paths relative to the package: need the package name -> take from binary for unit tests
        crate = None
        cur_path = path
        continue
    m = re.match(r"\s*Doc-tests (\S+)", line)
    if m:
        binary = None
        continue
    m = re.match(r"test (\S+) \.\.\. ok", line)
    if m and binary:
        passed.add((binary, m.group(1)))
# stable names look like  <crate>::<binary>::<test path>  or <crate>::<test path> for unit tests
names = set()
for b, t in passed:
    names.add("%s::%s" % (b, t))
missing = []
for s in sorted(stable):
    parts = s.split("::")
    ok = False
    # try  crate::binary::test  -> binary::test ; and crate::test -> crate::test
    cand = ["::".join(parts[1:]), s]
    for c in cand:
        if c in names:
            ok = True
    if not ok:
        missing.append(s)
print("baseline: %d stable tests, %d passed-by-name, %d missing" % (len(stable), len(stable) - len(missing), len(missing)))
for m in missing[:40]:
    print("MISSING/FAILED:", m)
sys.exit(1 if missing else 0)
