#!/usr/bin/env python3
"""seeded/_incoming/seed_<P>/m<i> + seeded/confirm.json + tools/seed_results.json -> seeded/<P>-m<i>/{patch.diff, demo, meta.json}"""
import glob, json, os, shutil
V = "/verif"
conf = json.load(open(V + "/seeded/confirm.json"))
res = json.load(open(V + "/tools/seed_results.json"))
for d in sorted(glob.glob(V + "/seeded/_incoming/seed_*/m*")):
    prop = d.split("seed_")[1].split("/")[0]
    m = os.path.basename(d)
    key = "%s-%s" % (prop, m)
    c = conf.get(key)
    if not c or not c.get("ok"):
        continue
    dst = os.path.join(V, "seeded", key)
    os.makedirs(dst, exist_ok=True)
    shutil.copy(d + "/patch.diff", dst + "/patch.diff")
    for f in glob.glob(d + "/seed_demo_*.rs"):
        shutil.copy(f, dst + "/" + os.path.basename(f))
    if os.path.exists(d + "/notes.md"):
        shutil.copy(d + "/notes.md", dst + "/notes.md")
    r = res.get(key, {})
    notes = open(d + "/notes.md").read() if os.path.exists(d + "/notes.md") else ""
    breaks = prop
    if prop == "C01" and "C03" in notes.split("\n", 12)[0:12].__str__() and ("breaks C03" in notes or "Property: C03" in notes or "C03 —" in notes[:400]):
        breaks = "C03"
    meta = {
        "id": key, "breaks_property": r.get("property", breaks), "needs_to_manifest": r.get("needs", "see notes.md"),
        "confirmed": {"in": "scratch worktree /tmp/repo_conf at /repo HEAD %s" % c.get("head", "")[:7], "demo_passes_on_clean_tree": c["clean_demo_passes"],
                      "patch_applies": c["applies"], "demo_fails_with_change": c["mutant_demo_fails"],
                      "existing_suites_pass_with_change": c["suite_passes_with_mutant"],
                      "ran": "tools/confirm_seeds.py: cargo test -p %s --test <demo> on clean and changed tree; cargo test --no-fail-fast -p erltf -p erltf_serde "
                             "-p edp_client -p edp_elixir_terms with the change" % c.get("crate")},
        "check_result": {"detected": r.get("detected"), "by": r.get("by", ""), "note": r.get("note", ""),
                         "ran": "tools/try_seed.sh %s seeded/%s/patch.diff  (applies the change in a scratch worktree, VERIF_REPO=<worktree> ./check %s --tier quick)" % (r.get("property", breaks), key, r.get("property", breaks))},
    }
    json.dump(meta, open(dst + "/meta.json", "w"), indent=1)
print("finalized", len(glob.glob(V + "/seeded/C*-m*")))
