#!/usr/bin/env python3
"""Writes /verif/MANIFEST.json from the table below (single source of truth for what is claimed)."""
import json, os
V = os.path.dirname(os.path.dirname(os.path.abspath(__file__)))
NOTE = ("bounded model checking: holds for the listed shapes/sizes/unwindings only (unwinding assertions on); trusted base: rustc+Kani "
        "MIR->goto translation, CBMC 6.11, CaDiCaL, std/nom/bytes internals; T1 destructor elision, T2 proved cuts, stubs listed in evidence")
CLAIMED = {
    "C11": ("E1 kani-cbmc", "4 C11",
            "Bounded model checking of the real Ord/PartialEq/Hash impls of OwnedTerm and BorrowedTerm: one CBMC query per shape pair / "
            "shape triple with every scalar and byte symbolic (all i64, all finite f64 bit patterns, bigs of 1..9 digits, atoms/binaries "
            "of 0..2 bytes, identifiers, funs, depth-1 containers). Decides antisymmetry, reflexivity, transitivity, ==>cmp-Equal, "
            "==>equal hash transcript (holds for every Hasher) and owned/borrowed agreement for all values of each shape.",
            "kani+cbmc bounded model checking per shape, counterexamples replayed natively"),
    "C12": ("E1 kani-cbmc", "4 C12",
            "Bounded model checking of Ord::cmp against an independent exact reference of Erlang's term order (integer-arithmetic "
            "int-vs-float comparison, type-rank table, bit-wise bit-strings, cons-cell lists) for all values of each shape pair.",
            "kani+cbmc differential check against a reference order, counterexamples replayed natively"),
    "C20": ("E1 kani-cbmc", "4 C20",
            "Bounded model checking of ElixirRange::{is_empty,len,contains}, RangeIterator::{next,size_hint}: overflow/panic freedom for all "
            "i64 first/last/step/value; agreement of len/contains/iteration with a 128-bit reference for all i64 bounds and a set of "
            "steps (symbolic 64-bit division equivalence is out of reach). Date/time/map-set/proplist clauses are not decided (see DESIGN).",
            "kani+cbmc bounded model checking against a 128-bit reference"),
}
CLAIMED["C16"] = ("E2 mir-smt", "4 C16",
    "Bounded model checking over interleavings: the MIR of PidAllocator::allocate and Node::make_reference (regenerated from the working "
    "tree) is executed symbolically into a visible-action tree (lock, guard drop and every atomic access are steps); z3 decides, for a "
    "symbolic start state and a symbolic schedule of 2 threads (3 threads / 2x2 calls thorough), that no MIR overflow assert fires and no "
    "two results collide; plus an inductive step and an injectivity window of 2^52 ranks for sequential histories.",
    "MIR->SMT symbolic execution + z3 BMC over symbolic schedules; counterexample schedules replayed natively through yield-point hooks")
NA = {
    "C07": "frame assembly is inline in async fns writing to a concrete tokio OwnedWriteHalf; no seam a symbolic executor can observe; "
           "atomicity under concurrent senders is tokio-Mutex scheduling (Kani has no concurrency, no sockets)",
    "C17": "RPC correlation lives in async fns over DashMap/oneshot/timeout and a spawned receiver task on TCP; quantifies over task "
           "interleavings and reply timing; no symbolic executor here models the tokio runtime",
    "C18": "process lifecycle is tokio::spawn tasks, mpsc mailboxes and RwLock tables, Node::start needs EPMD; runtime scheduling property",
    "C19": "receiver loop is a closure in tokio::spawn on a concrete OwnedReadHalf with wall-clock timeouts; not encodable",
}
PENDING = {}   # filled below for properties whose checks are not (yet) registered


def main():
    props = [json.loads(l)["id"] for l in open(os.path.join(V, "properties.jsonl"))]
    extra = json.load(open(os.path.join(V, "tools", "manifest_extra.json"))) if os.path.exists(os.path.join(V, "tools", "manifest_extra.json")) else {}
    claimed = dict(CLAIMED)
    claimed.update({k: tuple(v) for k, v in extra.get("claimed", {}).items()})
    na = dict(NA)
    na.update(extra.get("not_applicable", {}))
    checks = []
    for pid in props:
        if pid not in claimed:
            continue
        eng, ref, text, tech = claimed[pid]
        checks.append({
            "property_id": pid,
            "quick_cmd": "./check %s --tier quick" % pid,
            "thorough_cmd": "./check %s --tier thorough" % pid,
            "evidence_file": "/verif/evidence/%s.json" % pid,
            "replay_cmd_template": "./check %s --replay {path}" % pid,
            "engine": eng,
            "level_claimed": {"category": "model_checking", "text": text, "design_ref": "DESIGN.md section " + ref},
            "level_note": NOTE,
            "technique": tech,
        })
    nal = []
    for pid in props:
        if pid in claimed:
            continue
        nal.append({"property_id": pid, "reason": na.get(pid, "no solver-based check of the real code could be made to finish within "
                                                               "the time available; see DESIGN.md section 5")})
    m = {
        "version": 1,
        "setup_cmd": "./setup.sh",
        "hooks": {"guard": "--cfg edp_rs_verif", "enable": "RUSTFLAGS='--cfg edp_rs_verif' (set by the driver for the harness crate build)",
                  "baseline_off_cmd": "python3 /verif/tools/baseline.py", "source_commits": [], "add_only": True},
        "engines": [
            {"name": "E1 kani-cbmc", "path": "/verif/driver/e1.py", "serves_properties": sorted(k for k, v in claimed.items() if v[0].startswith("E1")),
             "kind_free_text": "Kani 0.68 compiler over a harness crate with path dependencies on /repo/crates/*; kani-driver's goto-cc/"
                               "goto-instrument steps replicated plus goto-level transformations T1-T4; CBMC 6.11 + CaDiCaL decides each harness"},
            {"name": "E2 mir-smt", "path": "/verif/mir_smt", "serves_properties": sorted(k for k, v in claimed.items() if v[0].startswith("E2")),
             "kind_free_text": "nightly rustc -Zunpretty=mir of the real crate, symbolic execution of scalar MIR to SMT-LIB2, z3 (cvc5 cross-check)"},
        ],
        "checks": checks,
        "not_applicable": nal,
        "notes": "All verdicts are bounded (see evidence.coverage.bounds). Exit 0 = held on everything explored; 1 + VIOLATION line = "
                 "natively reproducing counterexample not listed in known_findings.json; 2 = inconclusive (timeout/OOM/unwinding/"
                 "non-reproducing counterexample), never reported as pass or violation.",
    }
    json.dump(m, open(os.path.join(V, "MANIFEST.json"), "w"), indent=1)
    print("claimed:", [c["property_id"] for c in checks])
    print("not applicable:", [n["property_id"] for n in nal])


main()
