#!/usr/bin/env python3
"""Writes /verif/MANIFEST.json from the table below (single source of truth for what is claimed)."""
import json, os
V = os.path.dirname(os.path.dirname(os.path.abspath(__file__)))
NOTE = ("bounded model checking: holds for the listed shapes/sizes/unwindings only (unwinding assertions on); trusted base: rustc+Kani "
        "MIR->goto translation, CBMC 6.11, CaDiCaL, std/nom/bytes internals; T1 destructor elision, T2 proved cuts, stubs listed in evidence")
CLAIMED = {
    "C11": ("E1 kani-cbmc", "4 C11",
            "Bounded model checking of the real Ord/PartialEq/Hash impls of OwnedTerm and BorrowedTerm: one CBMC query per shape pair / "
            "shape triple with every scalar and byte symbolic (all i64, all finite f64 bit patterns, bigs of 1..9 digits, atoms/binaries "
            "of 0..2 bytes, identifiers, funs, depth-1 containers). Decides antisymmetry, reflexivity, transitivity, ==>cmp-Equal, "
            "==>equal hash transcript (holds for every Hasher) and owned/borrowed agreement for all values of each shape.",
            "kani+cbmc bounded model checking per shape, counterexamples replayed natively"),
    "C12": ("E1 kani-cbmc", "4 C12",
            "Bounded model checking of Ord::cmp against an independent exact reference of Erlang's term order (integer-arithmetic "
            "int-vs-float comparison, type-rank table, bit-wise bit-strings, cons-cell lists) for all values of each shape pair. E2: the MIR of "
            "<OwnedTerm as Ord>::cmp on tuples and lists of 0..4 integers (thorough 7; CBMC runs out of memory on 2-element containers): size first "
            "then element-wise for tuples, element-wise then length for lists, all i64 elements.",
            "kani+cbmc differential check against a reference order, counterexamples replayed natively; MIR->SMT for wider tuples/lists"),
    "C20": ("E1 kani-cbmc", "4 C20",
            "Bounded model checking of ElixirRange::{is_empty,len,contains}, RangeIterator::{next,size_hint}: overflow/panic freedom for all "
            "i64 first/last/step/value; agreement of len/contains/iteration with a 128-bit reference for all i64 bounds and a set of "
            "steps (symbolic 64-bit division equivalence is out of reach). E2: the MIR of the four date/time from_term functions is executed "
            "symbolically with the map lookups as environment stubs; z3 decides that no returned value has a field different from the term's "
            "integer (all i64 values, any subset of keys present). E2 (stateful interpreter): the MIR of OwnedTerm::proplist_to_map / map_to_proplist on "
            "lists and maps of 1..3 elements of every element class with symbolic keys and values: last value per key, bare atoms become true, "
            "map -> proplist -> map is the identity. MapSet, exceptions and builders are not decided.",
            "kani+cbmc bounded model checking against a 128-bit reference; MIR->SMT for the date/time wrappers and the proplist/map helpers, native replay"),
}
CLAIMED["C16"] = ("E2 mir-smt", "4 C16",
    "Bounded model checking over interleavings: the MIR of PidAllocator::allocate and Node::make_reference (regenerated from the working "
    "tree) is executed symbolically into a visible-action tree (lock, guard drop and every atomic access are steps); z3 decides, for a "
    "symbolic start state and a symbolic schedule of 2 threads x 1 call (make_reference thorough: also 3 threads and 2x2 calls; for allocate those do not finish within an hour and are outside the claim), that no MIR overflow assert fires and no "
    "two results collide; plus an inductive step and an injectivity window of 2^52 ranks for sequential histories.",
    "MIR->SMT symbolic execution + z3 BMC over symbolic schedules; counterexample schedules replayed natively through yield-point hooks")
E1T = "kani+cbmc bounded model checking per shape, counterexamples replayed natively"
CLAIMED.update({
    "C01": ("E1 kani-cbmc", "9.3 C01", "Bounded model checking of the round trip as a chain per shape: encode(t) is byte-identical to an independent reference "
            "encoding of the value t denotes; decode(reference bytes) is Ok and denotes the value; re-encoding gives the same bytes. All scalar "
            "fields and bytes symbolic (all i64 split by width class, all float bit patterns, bigs of 1..9 digits, atoms/binaries/bit-strings "
            "of 0..2 bytes, identifiers, export funs, depth-1 tuple/list/improper list).", E1T),
    "C02": ("E1 kani-cbmc", "9.3 C02", "Per-tag length-field harnesses: for every tag with a wire-supplied length/arity/count the field bytes are fully symbolic "
            "(incl. 2^32-1) with little data behind; decides no panic and no single allocation request above 64*len+4096 bytes, for the owned and "
            "zero-copy entry points and the fragment-header entry points. E2: the container parsers (list, small/large tuple, NEW_FUN_EXT free variables, "
            "reference id words, COMPRESSED) are executed from their MIR on an input of symbolic length and unknown content up to their first "
            "Vec::with_capacity; z3 decides the requested capacity never exceeds both the input length and 65536.",
            E1T + "; allocation budget assertion in the allocator model; MIR->SMT for the pre-allocation sites with native replay under a counting allocator"),
    "C03": ("E1 kani-cbmc", "9.3 C03", "For each admissible alternative encoding (non-minimal integer widths, leading-zero bignums, LARGE_BIG, four atom tags incl. "
            "Latin-1, LARGE_TUPLE, PID_EXT, PORT_EXT/NEW_PORT_EXT, NEW_REFERENCE_EXT, STRING_EXT, LOCAL_EXT) the reference emits the bytes from symbolic "
            "field values and the real decoder must return a term denoting exactly that value; one trailing byte must be reported.", E1T),
    "C04": ("E1 kani-cbmc", "9.3 C04", "Bounded model checking of the HandshakeStateMachine API as a transition system: concrete call scripts (quick 14, thorough all "
            "sequences over challenge/reply/ack/disconnect up to length 4) with every message byte, both flag sets, creation and every challenge "
            "symbolic; Connected only after an ack equal to 'a'++D(our challenge of this handshake, cookie); flags = intersection; emitted layouts. "
            "E2: the MIR of digest::compute_digest with the hasher as an uninterpreted accumulator: for every u32 challenge the bytes fed to MD5 "
            "are the cookie followed by the decimal challenge.", E1T + "; MIR->SMT for compute_digest's input string, replayed against an independent MD5"),
    "C05": ("E1 kani-cbmc", "9.3 C05", "read_framed/write_framed futures polled by hand over a harness reader/writer: every composition of the byte stream into reads "
            "(enumerated inside the harness) with symbolic payload bytes returns the messages intact; one-shot and streaming writers agree; "
            "oversize refused before reading, EOF inside a frame is UnexpectedEof.", E1T + " (chunkings enumerated, contents symbolic)"),
    "C08": ("E1 kani-cbmc", "9.3 C08", "ControlMessageType numbering equals the protocol table in both directions for all 256 byte values; every structured variant "
            "serialises (to_term and into_term) with the protocol's tag, arity and field order for symbolic field values (E1). E2: the MIR of "
            "ControlMessage::from_term is executed symbolically over an arbitrary input term (tuple of symbolic length, opaque elements, symbolic "
            "integer-ness and value of the head and of element 1) and z3 checks every return path against the protocol table: tag, arity guard, "
            "field order, Generic fallback, rejection of bad heads and negative unlink ids, no index out of bounds.",
            E1T + "; MIR->SMT for from_term with native replay"),
    "C09": ("E2 mir-smt (stateful)", "9.3 C09", "Symbolic execution of the MIR of FragmentAssembler::{start_fragment, add_fragment, pending_count} and everything they call in "
            "fragmentation.rs (FragmentedMessage::*, FragmentCount::*, the closures) by a stateful MIR interpreter with models of Vec/HashMap/Option "
            "(mir_smt/heapex.py): scripts of header/continuation calls on one or two sequences of 1..3 fragments with symbolic continuation ids "
            "(any u64: duplicates, 0, out of range), symbolic sequence ids and payload identities; on every feasible path z3 decides, after each "
            "call, Some/None against a reference model's completion point, the delivered chunk order against cache++p(N)..p(1), and at the end "
            "pending_count <= live sequences; panics are violations. Counterexamples are replayed on the real FragmentAssembler.",
            "MIR->SMT symbolic execution (stateful interpreter, std containers modelled) + z3 per path; native replay of every counterexample"),
    "C10": ("E1 kani-cbmc", "9.3 C10", "Chain: decoding LOCAL_EXT keeps exactly the bytes after the tag on the identifier; encoding an identifier with preserved bytes "
            "replays them byte-for-byte, also after clone / borrowed round trip / inside a tuple (all fields and hash bytes symbolic); ==, cmp, "
            "partial_cmp and the hash transcript of ExternalPid/Port/Reference depend on the logical fields only (plain vs node-local, both "
            "hashes symbolic); clone and the owned->zero-copy->owned conversion keep the preserved bytes (field level). E2: the identifier arms of "
            "BorrowedTerm::to_owned and From<&OwnedTerm> are executed from the MIR and must carry the input identifier record itself (a "
            "rebuilt identifier has lost its bytes) - this covers the Reference variant, on which no CBMC conversion/encode harness finishes.",
            E1T + "; MIR-level arm check for the conversions with native replay"),
    "C13": ("E2 mir-smt (stateful)", "9.3 C13", "Leaf-tag clause only: both copies of each leaf parser (binary, bit-binary, string, small/large big, the atom tags, "
            "small integer, integer, new float) are executed from their MIR by the stateful interpreter on the same abstract input (symbolic length, "
            "shared field symbols per offset, shared UTF-8 validity); z3 decides that no owned path and zero-copy path with different outcomes "
            "(accept / reject / panic) are jointly satisfiable and that both hand the same sign to BigInt::new; BorrowedTerm::to_owned, executed from its "
            "MIR on Nil / Integer / lists and tuples of 0..2 integers (one nesting level), keeps variant, element count and integers. The recursive "
            "container parsers, identifiers and the reported error offset are outside (decode_borrowed exhausts memory under CBMC).",
            "MIR->SMT symbolic execution of both parser copies on a shared abstract input + z3 per path pair; native replay on every prefix of a crafted input"),
    "C14": ("E2 mir-smt (stateful)", "9.3 C14", "Writer clause only: the MIR of encode_with_dist_header_multi, collect_atoms, encode_term_with_cache / encode_term_impl (Atom arm) "
            "and encode_atom_impl runs in the stateful MIR interpreter on 1..3 atom terms whose identities and byte lengths (0..131071) are symbolic "
            "(terms may coincide); the produced buffer (8-bit expressions + opaque atom-text chunks) is read by a reference reader of the documented "
            "DIST_HEADER layout and z3 decides on every path that flag nibbles, the LongAtoms bit, 1-/2-byte lengths and indices are where the "
            "protocol puts them and that every ATOM_CACHE_REF resolves to the atom encoded; an error only for atoms over 65535 bytes. The header "
            "reader (nom), the library round trip, the atom cache across messages and non-atom terms are outside.",
            "MIR->SMT symbolic execution (stateful interpreter, std containers and byte buffers modelled) + z3 per path; counterexamples replayed by "
            "an independent native reader of the real encoder's bytes"),
    "C15": ("E1 kani-cbmc", "9.3 C15", "from_term(to_term(v)) == v for all values of i8..i64, u8..u64, f32, f64, bool, char, (), Option<i64>, (i64,u8); wire trip: "
            "reference bytes of the value's width class -> real decoder -> real deserializer must give the value back.", E1T),
})
for _k in ():
    CLAIMED.pop(_k, None)
NA = {
    "C06": "the receive dispatch is inlined in `async fn Connection::receive_message` over FramedTransport::read (tokio net + timer): any harness "
           "from which it is reachable makes Kani's compiler fail (runtime-context thread-local -> catch_unwind), and an async stub of the "
           "transport cannot be constructed outside tokio; the synchronous components it calls are covered by C02 (fragment headers), C09 "
           "(assembler) and C01/C03 (terms), but exactly-once/in-order delivery across calls is not decidable with this technique here",
    "C07": "frame assembly is inline in async fns writing to a concrete tokio OwnedWriteHalf; no seam a symbolic executor can observe; "
           "atomicity under concurrent senders is tokio-Mutex scheduling (Kani has no concurrency, no sockets)",
    "C17": "RPC correlation lives in async fns over DashMap/oneshot/timeout and a spawned receiver task on TCP; quantifies over task "
           "interleavings and reply timing; no symbolic executor here models the tokio runtime",
    "C18": "process lifecycle is tokio::spawn tasks, mpsc mailboxes and RwLock tables, Node::start needs EPMD; runtime scheduling property",
    "C19": "receiver loop is a closure in tokio::spawn on a concrete OwnedReadHalf with wall-clock timeouts; not encodable",
}
import subprocess
HOOK_COMMITS = [l.split()[0] for l in subprocess.run(["git", "-C", "/repo", "log", "--format=%h %s"], stdout=subprocess.PIPE, text=True).stdout.splitlines()
                if l.split(" ", 1)[1].startswith("verif hooks")]
PENDING = {}   # filled below for properties whose checks are not (yet) registered


def main():
    props = [json.loads(l)["id"] for l in open(os.path.join(V, "properties.jsonl"))]
    extra = json.load(open(os.path.join(V, "tools", "manifest_extra.json"))) if os.path.exists(os.path.join(V, "tools", "manifest_extra.json")) else {}
    claimed = dict(CLAIMED)
    claimed.update({k: tuple(v) for k, v in extra.get("claimed", {}).items()})
    # only properties whose timings are calibrated (i.e. whose check has been run to completion here) are registered
    claimed = {k: v for k, v in claimed.items() if k in ("C16", "C09", "C14", "C13") or os.path.exists(os.path.join(V, "driver", "timings", k + ".json"))}
    na = dict(NA)
    na.update(extra.get("not_applicable", {}))
    checks = []
    for pid in props:
        if pid not in claimed:
            continue
        eng, ref, text, tech = claimed[pid]
        checks.append({
            "property_id": pid,
            "quick_cmd": "./check %s --tier quick" % pid,
            "thorough_cmd": "./check %s --tier thorough" % pid,
            "evidence_file": "/verif/evidence/%s.json" % pid,
            "replay_cmd_template": "./check %s --replay {path}" % pid,
            "engine": eng,
            "level_claimed": {"category": "model_checking", "text": text, "design_ref": "DESIGN.md section " + ref},
            "level_note": NOTE,
            "technique": tech,
        })
    nal = []
    for pid in props:
        if pid in claimed:
            continue
        nal.append({"property_id": pid, "reason": na.get(pid, "no solver-based check of the real code could be made to finish within "
                                                               "the time available; see DESIGN.md section 5")})
    m = {
        "version": 1,
        "setup_cmd": "./setup.sh",
        "hooks": {"guard": "--cfg edp_rs_verif", "enable": "RUSTFLAGS='--cfg edp_rs_verif' (set by the driver for the harness crate build)",
                  "baseline_off_cmd": "python3 /verif/tools/baseline.py", "source_commits": HOOK_COMMITS, "add_only": True},
        "engines": [
            {"name": "E1 kani-cbmc", "path": "/verif/driver/e1.py", "serves_properties": sorted(k for k, v in claimed.items() if v[0].startswith("E1")),
             "kind_free_text": "Kani 0.68 compiler over a harness crate with path dependencies on /repo/crates/*; kani-driver's goto-cc/"
                               "goto-instrument steps replicated plus goto-level transformations T1-T4; CBMC 6.11 + CaDiCaL decides each harness"},
            {"name": "E2 mir-smt", "path": "/verif/mir_smt", "serves_properties": sorted(k for k, v in claimed.items() if v[0].startswith("E2")),
             "kind_free_text": "nightly rustc -Zunpretty=mir of the real crate; symex.py: loop-free scalar MIR -> visible-action tree -> SMT-LIB2 (z3, cvc5 "
                               "cross-check); heapex.py: stateful MIR interpreter with container models, one z3 process per script, choice points "
                               "decided by the solver; every counterexample replayed natively"},
        ],
        "checks": checks,
        "not_applicable": nal,
        "notes": "Known findings (genuine defects recorded rather than repaired, and the list of repaired ones) are in /verif/known_findings.json; "
                 "each open entry has a committed replay case under /verif/replay/known/. "
                 "All verdicts are bounded (see evidence.coverage.bounds). Exit 0 = held on everything explored; 1 + VIOLATION line = "
                 "natively reproducing counterexample not listed in known_findings.json; 2 = inconclusive (timeout/OOM/unwinding/"
                 "non-reproducing counterexample), never reported as pass or violation.",
    }
    json.dump(m, open(os.path.join(V, "MANIFEST.json"), "w"), indent=1)
    print("claimed:", [c["property_id"] for c in checks])
    print("not applicable:", [n["property_id"] for n in nal])


main()
