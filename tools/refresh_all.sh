#!/bin/sh
# Re-runs every registered quick check on /repo's working tree (one at a time), rewrites evidence/<id>.json, regenerates the committed
# replay cases of the open known findings, validates evidence + manifest against the schemas.
cd /verif || exit 2
rc=0
for id in $(python3 -c "import json;print(' '.join(c['property_id'] for c in json.load(open('MANIFEST.json'))['checks']))"); do
  case $id in C08|C09|C11|C12) env="VERIF_REPLAY_KNOWN=1";; *) env="";; esac
  echo "=== $id $(date +%H:%M:%S)"
  env $env ./check $id --tier quick > /tmp/refresh_$id.log 2>&1; r=$?
  grep -E "^SUMMARY|^VIOLATION|^INCONCLUSIVE" /tmp/refresh_$id.log | cut -c1-220
  echo "exit=$r"
  [ $r -ne 0 ] && rc=1
done
python3 tools/collect_known_replays.py
python3-vt - <<'P'
import json, jsonschema, glob
es = json.load(open('/root/.vp/EVIDENCE.schema.json'))
for f in sorted(glob.glob('/verif/evidence/*.json')):
    jsonschema.validate(json.load(open(f)), es)
jsonschema.validate(json.load(open('/verif/MANIFEST.json')), json.load(open('/root/.vp/MANIFEST.schema.json')))
print("schemas ok")
P
exit $rc
