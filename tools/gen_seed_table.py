#!/usr/bin/env python3
"""Prints the markdown table of DESIGN.md section 9.5 from tools/seed_results.json (+ seeded/confirm.json)."""
import json, re
r = json.load(open("/verif/tools/seed_results.json"))
c = json.load(open("/verif/seeded/confirm.json"))
key = lambda k: (k.split("-")[0], int(k.split("-m")[1]))
print("| seed | needs, in order to manifest | result | what it took |")
print("|---|---|---|---|")
for k in sorted(r, key=key):
    v = r[k]
    esc = lambda s: (s or "").replace("|", "/")
    res = ("caught: " + esc(v.get("by", ""))) if v.get("detected") else "**missed**"
    print("| %s | %s | %s | %s |" % (k, esc(v.get("needs", "")), res, esc(v.get("note", ""))))
n = sum(1 for v in r.values() if v.get("detected"))
print("\n%d of %d caught; all %d confirmed independently: %s" % (n, len(r), len(c), all(x.get("ok") for x in c.values())))
