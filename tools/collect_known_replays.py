#!/usr/bin/env python3
"""Copies, for every open known finding, one replay case produced by `VERIF_REPLAY_KNOWN=1 ./check <P>` from replay/cases/
to the committed path named in known_findings.json (replay/known/...)."""
import glob, json, os, re, shutil
V = "/verif"
k = json.load(open(V + "/known_findings.json"))
for f in k["findings"]:
    if f.get("status", "open") != "open" or not f.get("replay"):
        continue
    dst = os.path.join(V, f["replay"])
    best = None
    for c in sorted(glob.glob(V + "/replay/cases/%s-*.json" % f["property"]), key=os.path.getmtime, reverse=True):
        case = json.load(open(c))
        if re.fullmatch(f["harness"], case.get("harness", "")) and re.fullmatch(f["label"], case.get("label", "")):
            best = c
            break
    if best:
        os.makedirs(os.path.dirname(dst), exist_ok=True)
        shutil.copy(best, dst)
        print("%-40s <- %s" % (f["id"], os.path.basename(best)))
    else:
        print("%-40s no case found%s" % (f["id"], " (kept existing)" if os.path.exists(dst) else ""))
