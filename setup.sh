#!/bin/sh
# Builds the harness crate's dependencies with Kani's toolchain (offline) into build slot 0,
# clones the other build slots from it, and builds nothing else: every check regenerates and
# recompiles its harnesses from /repo's working tree.
set -e
cd "$(dirname "$0")"
export CARGO_NET_OFFLINE=true
mkdir -p .target .work evidence replay/cases
python3 - <<'PY'
import sys
sys.path.insert(0, '.')
from driver import runner, e1
from driver.props import selftest
src, hs = selftest.generate("quick", 0)
runner.write_gen(selftest.FEATURE, src, [h.name for h in hs])
e1.build(selftest.FEATURE, [h.name for h in hs])   # compiles all dependencies into slot0
e1.ensure_slots(e1.NSLOTS)
print("setup: kani build slots ready")
PY
# native replay binary (dev + release) so the first violation does not pay for a cold build
( cd harness && RUSTFLAGS="--cfg edp_rs_verif" cargo build --offline --bin replay --features c00 --target-dir ../.target-replay >/dev/null 2>&1 || true )
( cd harness && RUSTFLAGS="--cfg edp_rs_verif" cargo build --offline --release --bin replay --features c00 --target-dir ../.target-replay >/dev/null 2>&1 || true )
echo "setup done"
