//! C12 — comparison agrees with Erlang's standard term order (reference: terms::erl_cmp).
use crate::terms::*;
use crate::vassert;
use erltf::{BorrowedTerm, OwnedTerm};
use std::cmp::Ordering;

pub fn agrees(a: &OwnedTerm, ra: &RV, b: &OwnedTerm, rb: &RV) {
    let o = a.cmp(b);
    if order_prescribed(ra, rb) {
        let want = erl_cmp(ra, rb);
        vassert!(o == want, "L:order_agrees_with_erlang");
    } else {
        // identifiers and funs: only "Equal exactly when the identifying fields are equal" is prescribed
        vassert!((o == Ordering::Equal) == (ra == rb), "L:equal_iff_same_identity");
    }
}

pub fn agrees_borrowed(a: &OwnedTerm, ra: &RV, b: &OwnedTerm, rb: &RV) {
    let (x, y) = (BorrowedTerm::from(a), BorrowedTerm::from(b));
    let o = x.cmp(&y);
    if order_prescribed(ra, rb) {
        vassert!(o == erl_cmp(ra, rb), "L:borrowed_order_agrees_with_erlang");
    } else {
        vassert!((o == Ordering::Equal) == (ra == rb), "L:borrowed_equal_iff_same_identity");
    }
    std::mem::forget(x);
    std::mem::forget(y);
}
