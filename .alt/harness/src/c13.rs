//! C13 — the zero-copy decoder agrees with the owned decoder.
use crate::refetf::*;
use crate::terms::*;
use crate::vassert;
use crate::vk;
use erltf::OwnedTerm;

/// both decoders on `bytes`; `r` is the value when `bytes` is a complete modern encoding of it
pub fn agree(bytes: &[u8], r: Option<&RV>) {
    let b = erltf::decode_borrowed(bytes);
    let o = erltf::decode(bytes);
    match (&b, &o) {
        (Ok(t), Ok(u)) => {
            let t2 = t.to_owned();
            vassert!(std::mem::discriminant(&t2) == std::mem::discriminant(u), "L:to_owned_same_variant_as_owned");
            if let Some(r) = r {
                vassert!(denotes(&t2, r), "L:borrowed_result_denotes_value");
                vassert!(denotes(u, r), "L:owned_result_denotes_value");
            }
            vk::leak(t2);
        }
        (Ok(_), Err(_)) => vassert!(false, "L:borrowed_accepts_implies_owned_accepts"),
        (Err(e), Ok(_)) => {
            // modern-tag input accepted by the owned decoder must be accepted by the zero-copy one
            vassert!(false, "L:modern_input_accepted_by_owned_is_accepted_by_borrowed");
            vassert!(e.context.byte_offset <= bytes.len(), "L:error_offset_within_input");
        }
        (Err(e), Err(_)) => {
            vassert!(r.is_none(), "L:complete_modern_encoding_accepted");
            vassert!(e.context.byte_offset <= bytes.len(), "L:error_offset_within_input");
        }
    }
    vk::leak(b);
    vk::leak(o);
}

pub fn complete(r: &RV, int_mode: u8, digits: usize, bits_mode: u8) {
    let mut out = Out::new();
    out.push(131);
    emit(r, &Alt { int: int_mode, pad: digits, bits: bits_mode, ..MODERN }, &mut out);
    agree(out.bytes(), Some(r));
}

/// every proper prefix of the encoding (cut at a symbolic offset) is treated alike by both decoders
pub fn truncated(r: &RV, int_mode: u8, digits: usize, bits_mode: u8) {
    let mut out = Out::new();
    out.push(131);
    emit(r, &Alt { int: int_mode, pad: digits, bits: bits_mode, ..MODERN }, &mut out);
    let k = vk::usize();
    vk::assume(k < out.n);
    agree(&out.b[..k], None);
}
