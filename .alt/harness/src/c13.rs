//! C13 — the zero-copy decoder agrees with the owned decoder.
//!
//! Running both decoders in one query does not finish under CBMC, so agreement is decided as a chain
//! through the independent reference: C01 (`c01_dec__*`) decides that the owned decoder returns
//! variant K denoting value r on the reference bytes; here the zero-copy decoder followed by
//! `to_owned()` must return the same variant K denoting the same r on the same bytes.  For these
//! leaf/depth-1 shapes "same variant and same denoted value" is structural equality.  On every
//! proper prefix (symbolic cut) the zero-copy decoder must reject with an offset inside the input.
use crate::refetf::*;
use crate::terms::*;
use crate::vassert;
use crate::vk;

pub fn complete(r: &RV, int_mode: u8, digits: usize, bits_mode: u8, kind: u8) {
    let mut out = Out::new();
    out.push(131);
    emit(r, &Alt { int: int_mode, pad: digits, bits: bits_mode, ..MODERN }, &mut out);
    match erltf::decode_borrowed(out.bytes()) {
        Ok(t) => {
            let o = t.to_owned();
            vassert!(kind_of(&o) == kind, "L:to_owned_same_variant_as_owned_decoder");
            vassert!(denotes(&o, r), "L:to_owned_denotes_same_value_as_owned_decoder");
            vk::leak(o);
            vk::leak(t);
        }
        Err(e) => {
            vassert!(false, "L:modern_input_accepted_by_owned_is_accepted_by_borrowed");
            vassert!(e.context.byte_offset <= out.n, "L:error_offset_within_input");
            vk::leak(e);
        }
    }
}

pub fn truncated(r: &RV, int_mode: u8, digits: usize, bits_mode: u8, _kind: u8) {
    let mut out = Out::new();
    out.push(131);
    emit(r, &Alt { int: int_mode, pad: digits, bits: bits_mode, ..MODERN }, &mut out);
    let k = vk::usize();
    vk::assume(k < out.n);
    match erltf::decode_borrowed(&out.b[..k]) {
        Ok(t) => {
            vassert!(false, "L:proper_prefix_rejected");
            vk::leak(t);
        }
        Err(e) => {
            vassert!(e.context.byte_offset <= k, "L:error_offset_within_input");
            vk::leak(e);
        }
    }
}
