//! Native replay of a solver counterexample: `replay <harness> <v0,v1,...>`.
//! exit 101 (panic) = the assertion fails on the real crates with these values;
//! exit 0 = ran to the end without failure; exit 3 = a harness assumption is violated.
#[cfg(kani)]
fn main() {}

/// Counting allocator: a single request above the harness's budget ends the process with 101
/// (the native counterpart of the VERIF_ALLOC_CAP assertion).
#[cfg(not(kani))]
struct Budget;
#[cfg(not(kani))]
unsafe impl std::alloc::GlobalAlloc for Budget {
    unsafe fn alloc(&self, l: std::alloc::Layout) -> *mut u8 {
        if l.size() > edp_verif_harness::vk::NATIVE_ALLOC_CAP.load(std::sync::atomic::Ordering::Relaxed) {
            unsafe { libc_exit(l.size()) }
        }
        unsafe { std::alloc::System.alloc(l) }
    }
    unsafe fn dealloc(&self, p: *mut u8, l: std::alloc::Layout) {
        unsafe { std::alloc::System.dealloc(p, l) }
    }
    unsafe fn alloc_zeroed(&self, l: std::alloc::Layout) -> *mut u8 {
        if l.size() > edp_verif_harness::vk::NATIVE_ALLOC_CAP.load(std::sync::atomic::Ordering::Relaxed) {
            unsafe { libc_exit(l.size()) }
        }
        unsafe { std::alloc::System.alloc_zeroed(l) }
    }
    unsafe fn realloc(&self, p: *mut u8, l: std::alloc::Layout, n: usize) -> *mut u8 {
        if n > edp_verif_harness::vk::NATIVE_ALLOC_CAP.load(std::sync::atomic::Ordering::Relaxed) {
            unsafe { libc_exit(n) }
        }
        unsafe { std::alloc::System.realloc(p, l, n) }
    }
}
#[cfg(not(kani))]
unsafe fn libc_exit(size: usize) -> ! {
    // raise the cap first so that printing can allocate
    edp_verif_harness::vk::NATIVE_ALLOC_CAP.store(usize::MAX, std::sync::atomic::Ordering::SeqCst);
    eprintln!("REPLAY: single allocation request of {} bytes exceeds the budget", size);
    std::process::exit(101)
}
#[cfg(not(kani))]
#[global_allocator]
static GLOBAL: Budget = Budget;

#[cfg(not(kani))]
fn main() {
    let args: Vec<String> = std::env::args().collect();
    if args.len() < 2 {
        eprintln!("usage: replay <harness> [v0,v1,...]");
        std::process::exit(64);
    }
    let vals: Vec<u64> = if args.len() > 2 && !args[2].is_empty() {
        args[2].split(',').map(|s| s.parse::<u64>().expect("u64")).collect()
    } else {
        vec![]
    };
    for t in edp_verif_harness::tables() {
        for (n, f) in t.iter() {
            if *n == args[1] {
                edp_verif_harness::vk::native::load(&vals);
                f();
                if edp_verif_harness::vk::native::exhausted() {
                    eprintln!("REPLAY: value queue exhausted (trace shorter than execution)");
                }
                println!("REPLAY: completed without assertion failure; reached_end={}",
                    edp_verif_harness::vk::native::reached());
                std::process::exit(0);
            }
        }
    }
    eprintln!("unknown harness {}", args[1]);
    std::process::exit(64);
}
