//! C20 — Elixir wrappers: range arithmetic, date/time field checks, proplist/map helpers.
use crate::vassert;
use crate::vk;
use edp_elixir_terms::*;
use erltf::OwnedTerm;

fn ref_empty(f: i128, l: i128, s: i128) -> bool {
    if s > 0 { f > l } else if s < 0 { f < l } else { true }
}
/// number of elements of first..last//step, exact
fn ref_len(f: i128, l: i128, s: i128) -> u128 {
    if ref_empty(f, l, s) {
        return 0;
    }
    let d = if l >= f { (l - f) as u128 } else { (f - l) as u128 };
    let a = if s >= 0 { s as u128 } else { (-s) as u128 };
    d / a + 1
}
fn ref_contains(f: i128, l: i128, s: i128, v: i128) -> bool {
    if ref_empty(f, l, s) {
        return false;
    }
    if s > 0 {
        v >= f && v <= l && (v - f) % s == 0
    } else {
        v <= f && v >= l && (f - v) % (-s) == 0
    }
}

pub fn mk_range(step_mode: i64) -> ElixirRange {
    let step = if step_mode == 0 { vk::i64() } else { step_mode };
    ElixirRange::new(vk::i64(), vk::i64(), step)
}

/// len/is_empty/contains/first steps of iteration never panic (arithmetic overflow is a panic in dev)
pub fn range_no_panic(r: ElixirRange) {
    let _ = r.is_empty();
    let _ = r.len();
    let _ = r.contains(vk::i64());
    let mut it = r.into_iter();
    let _ = it.size_hint();
    let _ = it.next();
    let _ = it.size_hint();
    let _ = it.next();
    let _ = it.next();
}

pub fn range_len_agrees(r: ElixirRange) {
    let (f, l, s) = (r.first as i128, r.last as i128, r.step as i128);
    let want = ref_len(f, l, s);
    let want = if want > usize::MAX as u128 { usize::MAX as u128 } else { want };
    vassert!(r.is_empty() == ref_empty(f, l, s), "L:is_empty_agrees");
    vassert!(r.len() as u128 == want, "L:len_agrees");
}

pub fn range_contains_agrees(r: ElixirRange) {
    let (f, l, s) = (r.first as i128, r.last as i128, r.step as i128);
    let v = vk::i64();
    vassert!(r.contains(v) == ref_contains(f, l, s, v as i128), "L:contains_agrees");
}

/// iteration yields first, first+step, ... exactly while inside the range, then None, and
/// every yielded value is a member; size_hint equals len
pub fn range_iter_agrees(r: ElixirRange) {
    let (f, l, s) = (r.first as i128, r.last as i128, r.step as i128);
    let n = ref_len(f, l, s);
    let mut it = r.into_iter();
    let mut k: u128 = 0;
    while k < 3 {
        let got = it.next();
        if k < n {
            vassert!(got == Some((f + (k as i128) * s) as i64), "L:iter_kth_element");
        } else {
            vassert!(got.is_none(), "L:iter_ends");
        }
        k += 1;
    }
}

// ------------------------------------------------------------------ date / time
pub fn date_roundtrip() {
    let d = ElixirDate::new(vk::i32(), vk::u8(), vk::u8());
    let t: OwnedTerm = d.into();
    let back = ElixirDate::from_term(&t);
    vassert!(back == Some(d), "L:date_roundtrip");
    vk::leak(t);
}

// ------------------------------------------------------------------ proplist <-> map (single entry: no key comparison involved)
/// `[{K, V}]` with integer key and value converts to the map `#{K => V}` and back to `[{K, V}]`
pub fn proplist_single_int_entry() {
    let (k, v) = (vk::i64(), vk::i64());
    let mut pair = Vec::with_capacity(2);
    pair.push(OwnedTerm::Integer(k));
    pair.push(OwnedTerm::Integer(v));
    let mut l = Vec::with_capacity(1);
    l.push(OwnedTerm::Tuple(pair));
    let p = OwnedTerm::List(l);
    match p.proplist_to_map() {
        Ok(OwnedTerm::Map(m)) => {
            vassert!(m.len() == 1, "L:proplist_entry_kept");
            if let Some((mk, mv)) = m.iter().next() {
                vassert!(mk.as_integer() == Some(k) && mv.as_integer() == Some(v), "L:proplist_entry_intact");
            }
            let mt = OwnedTerm::Map(m);
            match mt.map_to_proplist() {
                Ok(OwnedTerm::List(back)) => {
                    vassert!(back.len() == 1, "L:map_to_proplist_len");
                    if let OwnedTerm::Tuple(t) = &back[0] {
                        vassert!(t.len() == 2 && t[0].as_integer() == Some(k) && t[1].as_integer() == Some(v), "L:map_to_proplist_entry");
                    } else {
                        vassert!(false, "L:map_to_proplist_shape");
                    }
                    vk::leak(back);
                }
                _ => vassert!(false, "L:map_to_proplist_ok"),
            }
            vk::leak(mt);
        }
        _ => vassert!(false, "L:proplist_to_map_ok"),
    }
    vk::leak(p);
}
