//! C01 — encode/decode round trip preserves the Erlang value of every term.
//!
//! The round trip is decided as a chain of three bounded facts per shape (so that no query has a
//! buffer of symbolic length):  E: `encode(t)` is byte-for-byte the reference encoding
//! `emit(r, MODERN)` of the value r that t denotes (hence "valid ETF of the same value as read by an
//! independent implementation"; the reference uses the alternative the library canonically picks for the
//! shape: minimal width for `Integer`, SMALL_BIG_EXT with the given digits for `BigInt`, BIT_BINARY_EXT
//! for `BitBinary`);  D: `decode(emit(r, MODERN))` is Ok and denotes r;  R:
//! `encode(decode(emit(r, MODERN)))` is again `emit(r, MODERN)`.  E+D+R give (a)-(d) of the statement.
use crate::refetf::*;
use crate::terms::*;
use crate::vassert;
use crate::vk;
use erltf::OwnedTerm;

fn same_bytes(a: &[u8], b: &[u8]) -> bool {
    if a.len() != b.len() {
        return false;
    }
    let mut i = 0;
    while i < a.len() {
        if a[i] != b[i] {
            return false;
        }
        i += 1;
    }
    true
}

fn reference_bytes(r: &RV, alt: &Alt) -> Out {
    let mut o = Out::new();
    o.push(131);
    emit(r, alt, &mut o);
    o
}

/// E: the encoder's output is the reference encoding of the denoted value
pub fn enc(t: &OwnedTerm, r: &RV, int_mode: u8, digits: usize, bits_mode: u8) {
    let alt = Alt { int: int_mode, pad: digits, bits: bits_mode, ..MODERN };
    match erltf::encode(t) {
        Ok(bytes) => {
            vassert!(accepts(&bytes, r), "L:independent_reader_agrees");
            let want = reference_bytes(r, &alt);
            vassert!(same_bytes(&bytes, want.bytes()), "L:encoder_emits_reference_encoding");
            vk::leak(bytes);
        }
        Err(e) => {
            vassert!(false, "L:encode_ok");
            vk::leak(e);
        }
    }
}

/// D (and R when `reencode`) on the reference encoding; `int_mode`/`digits` pin the integer width
/// class of the shape (0 = no top-level integer) so that the encoded length is concrete
pub fn dec(r: &RV, int_mode: u8, digits: usize, bits_mode: u8, reencode: bool, kind: u8) {
    let mut out = Out::new();
    out.push(131);
    let alt = Alt { int: int_mode, pad: digits, bits: bits_mode, ..MODERN };
    emit(r, &alt, &mut out);
    let bytes = out.bytes();
    vassert!(accepts(bytes, r), "L:reference_bytes_encode_r");
    match erltf::decode(bytes) {
        Ok(d) => {
            vassert!(denotes(&d, r), "L:decode_denotes_same_value");
            vassert!(kind_of(&d) == kind, "L:decode_variant");
            if reencode {
                match erltf::encode(&d) {
                    Ok(b2) => {
                        vassert!(same_bytes(&b2, bytes), "L:reencode_same_bytes");
                        vk::leak(b2);
                    }
                    Err(e) => {
                        vassert!(false, "L:reencode_ok");
                        vk::leak(e);
                    }
                }
            }
            vk::leak(d);
        }
        Err(e) => {
            vassert!(false, "L:decode_ok");
            vk::leak(e);
        }
    }
}
