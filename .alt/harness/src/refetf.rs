//! Independent model of the External Term Format, written from OTP's erl_ext_dist document.
//!
//! * `accepts(bytes, rv)`  — is `bytes` (after the 131 version byte) *a* valid encoding of the
//!   value `rv`?  Every admissible alternative of every node is accepted (small/large, legacy,
//!   non-minimal bignums...).  Walks the concrete-shaped `RV`; never allocates.
//! * `emit(rv, alt, out)`  — writes the encoding of `rv` choosing alternative `alt` at each node.
//! * `denotes(term, rv)`   — does the library's `OwnedTerm` denote the value `rv`?  Non-allocating.

use crate::terms::RV;
use erltf::{BigInt, OwnedTerm};

fn be16(b: &[u8], p: usize) -> usize {
    ((b[p] as usize) << 8) | b[p + 1] as usize
}
fn be32(b: &[u8], p: usize) -> u64 {
    ((b[p] as u64) << 24) | ((b[p + 1] as u64) << 16) | ((b[p + 2] as u64) << 8) | b[p + 3] as u64
}
fn be64(b: &[u8], p: usize) -> u64 {
    (be32(b, p) << 32) | be32(b, p + 4)
}

fn abs128(v: i128) -> u128 {
    if v < 0 { (-(v + 1)) as u128 + 1 } else { v as u128 }
}

/// little-endian digits b[p..p+n] equal magnitude m (n may exceed the minimal length: high digits zero)
fn digits_eq(b: &[u8], p: usize, n: usize, m: u128) -> bool {
    let mut i = 0;
    let mut m = m;
    while i < n {
        if b[p + i] != (m & 0xff) as u8 {
            return false;
        }
        m >>= 8;
        i += 1;
    }
    m == 0
}

fn atom_at(b: &[u8], p: usize, name: &[u8]) -> Option<usize> {
    if p >= b.len() {
        return None;
    }
    let (len, q) = match b[p] {
        119 | 115 => {
            if p + 2 > b.len() {
                return None;
            }
            (b[p + 1] as usize, p + 2)
        }
        118 | 100 => {
            if p + 3 > b.len() {
                return None;
            }
            (be16(b, p + 1), p + 3)
        }
        _ => return None,
    };
    if len != name.len() || q + len > b.len() {
        return None;
    }
    let mut i = 0;
    while i < len {
        if b[q + i] != name[i] {
            return None;
        }
        i += 1;
    }
    Some(q + len)
}

/// Some(end) when b[p..end] is a valid encoding of `v`
pub fn accepts_at(b: &[u8], p: usize, v: &RV) -> Option<usize> {
    if p >= b.len() {
        return None;
    }
    let tag = b[p];
    match v {
        RV::Int(x) => match tag {
            97 => {
                if p + 2 <= b.len() && *x >= 0 && *x <= 255 && b[p + 1] as i128 == *x {
                    Some(p + 2)
                } else {
                    None
                }
            }
            98 => {
                if p + 5 <= b.len() && (be32(b, p + 1) as u32 as i32) as i128 == *x {
                    Some(p + 5)
                } else {
                    None
                }
            }
            110 => {
                if p + 3 > b.len() {
                    return None;
                }
                let n = b[p + 1] as usize;
                let sign = b[p + 2];
                if p + 3 + n > b.len() || sign > 1 {
                    return None;
                }
                let neg = sign == 1;
                if (neg && *x > 0) || (!neg && *x < 0) {
                    return None;
                }
                if digits_eq(b, p + 3, n, abs128(*x)) { Some(p + 3 + n) } else { None }
            }
            111 => {
                if p + 6 > b.len() {
                    return None;
                }
                let n = be32(b, p + 1) as usize;
                let sign = b[p + 5];
                if p + 6 + n > b.len() || sign > 1 {
                    return None;
                }
                let neg = sign == 1;
                if (neg && *x > 0) || (!neg && *x < 0) {
                    return None;
                }
                if digits_eq(b, p + 6, n, abs128(*x)) { Some(p + 6 + n) } else { None }
            }
            _ => None,
        },
        RV::Float(bits) => {
            if tag == 70 && p + 9 <= b.len() && be64(b, p + 1) == *bits { Some(p + 9) } else { None }
        }
        RV::Atom(name) => atom_at(b, p, name),
        RV::Nil => {
            if tag == 106 { Some(p + 1) } else { None }
        }
        RV::Bits(bytes, last) => {
            if tag == 109 {
                if *last != 8 && !bytes.is_empty() {
                    return None;
                }
                if p + 5 > b.len() || be32(b, p + 1) as usize != bytes.len() || p + 5 + bytes.len() > b.len() {
                    return None;
                }
                let mut i = 0;
                while i < bytes.len() {
                    if b[p + 5 + i] != bytes[i] {
                        return None;
                    }
                    i += 1;
                }
                Some(p + 5 + bytes.len())
            } else if tag == 77 {
                if p + 6 > b.len() || be32(b, p + 1) as usize != bytes.len() || p + 6 + bytes.len() > b.len() {
                    return None;
                }
                if !bytes.is_empty() && b[p + 5] != *last {
                    return None;
                }
                let mut i = 0;
                while i < bytes.len() {
                    if b[p + 6 + i] != bytes[i] {
                        return None;
                    }
                    i += 1;
                }
                Some(p + 6 + bytes.len())
            } else {
                None
            }
        }
        RV::Pid(node, id, serial, creation) => {
            if tag == 88 {
                let q = atom_at(b, p + 1, node)?;
                if q + 12 > b.len() {
                    return None;
                }
                if be32(b, q) as u32 == *id && be32(b, q + 4) as u32 == *serial && be32(b, q + 8) as u32 == *creation {
                    Some(q + 12)
                } else {
                    None
                }
            } else if tag == 103 {
                let q = atom_at(b, p + 1, node)?;
                if q + 9 > b.len() {
                    return None;
                }
                if be32(b, q) as u32 == *id && be32(b, q + 4) as u32 == *serial && b[q + 8] as u32 == *creation {
                    Some(q + 9)
                } else {
                    None
                }
            } else {
                None
            }
        }
        RV::Port(node, id, creation) => {
            if tag == 120 {
                let q = atom_at(b, p + 1, node)?;
                if q + 12 > b.len() {
                    return None;
                }
                if be64(b, q) == *id && be32(b, q + 8) as u32 == *creation { Some(q + 12) } else { None }
            } else if tag == 89 {
                let q = atom_at(b, p + 1, node)?;
                if q + 8 > b.len() {
                    return None;
                }
                if be32(b, q) == *id && be32(b, q + 4) as u32 == *creation { Some(q + 8) } else { None }
            } else if tag == 102 {
                let q = atom_at(b, p + 1, node)?;
                if q + 5 > b.len() {
                    return None;
                }
                if be32(b, q) == *id && b[q + 4] as u32 == *creation { Some(q + 5) } else { None }
            } else {
                None
            }
        }
        RV::Ref(node, creation, ids) => {
            if tag == 90 || tag == 114 {
                if p + 3 > b.len() || be16(b, p + 1) != ids.len() {
                    return None;
                }
                let q = atom_at(b, p + 3, node)?;
                let (cw, c) = if tag == 90 {
                    if q + 4 > b.len() {
                        return None;
                    }
                    (4, be32(b, q) as u32)
                } else {
                    if q + 1 > b.len() {
                        return None;
                    }
                    (1, b[q] as u32)
                };
                if c != *creation || q + cw + 4 * ids.len() > b.len() {
                    return None;
                }
                let mut i = 0;
                while i < ids.len() {
                    if be32(b, q + cw + 4 * i) as u32 != ids[i] {
                        return None;
                    }
                    i += 1;
                }
                Some(q + cw + 4 * ids.len())
            } else {
                None
            }
        }
        RV::ExtFun(m, f, a) => {
            if tag != 113 {
                return None;
            }
            let q = atom_at(b, p + 1, m)?;
            let q = atom_at(b, q, f)?;
            accepts_at(b, q, &RV::Int(*a as i128))
        }
        RV::Tuple(es) => {
            let mut q = if tag == 104 {
                if p + 2 > b.len() || b[p + 1] as usize != es.len() {
                    return None;
                }
                p + 2
            } else if tag == 105 {
                if p + 5 > b.len() || be32(b, p + 1) as usize != es.len() {
                    return None;
                }
                p + 5
            } else {
                return None;
            };
            for e in es {
                q = accepts_at(b, q, e)?;
            }
            Some(q)
        }
        RV::List(es, tail) => {
            if tag != 108 || p + 5 > b.len() || be32(b, p + 1) as usize != es.len() {
                return None;
            }
            let mut q = p + 5;
            for e in es {
                q = accepts_at(b, q, e)?;
            }
            accepts_at(b, q, tail)
        }
        RV::Map(kvs) => {
            // entries may appear in any order; for the small maps used here: try the given order and its reverse
            if tag != 116 || p + 5 > b.len() || be32(b, p + 1) as usize != kvs.len() {
                return None;
            }
            let mut q = p + 5;
            let mut ok = true;
            for (k, v) in kvs {
                match accepts_at(b, q, k).and_then(|q2| accepts_at(b, q2, v)) {
                    Some(q3) => q = q3,
                    None => {
                        ok = false;
                        break;
                    }
                }
            }
            if ok {
                return Some(q);
            }
            let mut q = p + 5;
            for (k, v) in kvs.iter().rev() {
                q = accepts_at(b, q, k)?;
                q = accepts_at(b, q, v)?;
            }
            Some(q)
        }
        RV::IntFun { arity, uniq, index, module, old_index, old_uniq, pid, free } => {
            if tag != 112 || p + 1 + 4 + 1 + 16 + 4 + 4 > b.len() {
                return None;
            }
            let size = be32(b, p + 1) as usize;
            if b[p + 5] != *arity {
                return None;
            }
            let mut i = 0;
            while i < 16 {
                if b[p + 6 + i] != uniq[i] {
                    return None;
                }
                i += 1;
            }
            if be32(b, p + 22) as u32 != *index || be32(b, p + 26) as usize != free.len() {
                return None;
            }
            let q = atom_at(b, p + 30, module)?;
            let q = accepts_at(b, q, &RV::Int(*old_index as i128))?;
            let q = accepts_at(b, q, &RV::Int(*old_uniq as i128))?;
            let mut q = accepts_at(b, q, pid)?;
            for e in free {
                q = accepts_at(b, q, e)?;
            }
            // Size covers everything from the Size field itself to the end
            if size != q - (p + 1) {
                return None;
            }
            Some(q)
        }
        RV::BigWide(..) => None,
    }
}

/// `bytes` is exactly [131] ++ one valid encoding of `v`
pub fn accepts(bytes: &[u8], v: &RV) -> bool {
    if bytes.is_empty() || bytes[0] != 131 {
        return false;
    }
    accepts_at(bytes, 1, v) == Some(bytes.len())
}

fn big_value(b: &BigInt) -> Option<i128> {
    let mut n = b.digits.len();
    while n > 0 && b.digits[n - 1] == 0 {
        n -= 1;
    }
    if n > 15 {
        return None;
    }
    let mut mag: i128 = 0;
    let mut i = n;
    while i > 0 {
        i -= 1;
        mag = (mag << 8) | (b.digits[i] as i128);
    }
    Some(if b.sign.is_negative() { -mag } else { mag })
}

fn bytes_eq(a: &[u8], b: &[u8]) -> bool {
    if a.len() != b.len() {
        return false;
    }
    let mut i = 0;
    while i < a.len() {
        if a[i] != b[i] {
            return false;
        }
        i += 1;
    }
    true
}

/// the library term `t` denotes the Erlang value `v` (representation-insensitive)
pub fn denotes(t: &OwnedTerm, v: &RV) -> bool {
    match (t, v) {
        (OwnedTerm::Integer(i), RV::Int(x)) => *i as i128 == *x,
        (OwnedTerm::BigInt(b), RV::Int(x)) => big_value(b) == Some(*x),
        (OwnedTerm::Float(f), RV::Float(bits)) => f.to_bits() == *bits,
        (OwnedTerm::Atom(a), RV::Atom(n)) => bytes_eq(a.as_str().as_bytes(), n),
        (OwnedTerm::Nil, RV::Nil) => true,
        (OwnedTerm::List(es), RV::Nil) => es.is_empty(),
        (OwnedTerm::Binary(b), RV::Bits(x, last)) => (*last == 8 || x.is_empty()) && bytes_eq(b, x),
        (OwnedTerm::String(s), RV::Bits(x, last)) => (*last == 8 || x.is_empty()) && bytes_eq(s.as_bytes(), x),
        (OwnedTerm::BitBinary { bytes, bits }, RV::Bits(x, last)) => bytes_eq(bytes, x) && (x.is_empty() || bits == last),
        (OwnedTerm::Pid(p), RV::Pid(n, id, serial, creation)) => {
            bytes_eq(p.node.as_str().as_bytes(), n) && p.id == *id && p.serial == *serial && p.creation == *creation
        }
        (OwnedTerm::Port(p), RV::Port(n, id, creation)) => {
            bytes_eq(p.node.as_str().as_bytes(), n) && p.id == *id && p.creation == *creation
        }
        (OwnedTerm::Reference(r), RV::Ref(n, creation, ids)) => {
            if !(bytes_eq(r.node.as_str().as_bytes(), n) && r.creation == *creation && r.ids.len() == ids.len()) {
                return false;
            }
            let mut i = 0;
            while i < ids.len() {
                if r.ids[i] != ids[i] {
                    return false;
                }
                i += 1;
            }
            true
        }
        (OwnedTerm::ExternalFun(f), RV::ExtFun(m, fun, a)) => {
            bytes_eq(f.module.as_str().as_bytes(), m) && bytes_eq(f.function.as_str().as_bytes(), fun) && f.arity == *a
        }
        (OwnedTerm::Tuple(es), RV::Tuple(vs)) => {
            if es.len() != vs.len() {
                return false;
            }
            let mut i = 0;
            while i < vs.len() {
                if !denotes(&es[i], &vs[i]) {
                    return false;
                }
                i += 1;
            }
            true
        }
        (OwnedTerm::List(es), RV::List(vs, tail)) => {
            if es.len() != vs.len() || **tail != RV::Nil {
                return false;
            }
            let mut i = 0;
            while i < vs.len() {
                if !denotes(&es[i], &vs[i]) {
                    return false;
                }
                i += 1;
            }
            true
        }
        (OwnedTerm::ImproperList { elements, tail }, RV::List(vs, vt)) => {
            if elements.len() != vs.len() {
                return false;
            }
            let mut i = 0;
            while i < vs.len() {
                if !denotes(&elements[i], &vs[i]) {
                    return false;
                }
                i += 1;
            }
            denotes(tail, vt)
        }
        (OwnedTerm::Map(m), RV::Map(kvs)) => {
            if m.len() != kvs.len() {
                return false;
            }
            for (k, v) in kvs {
                let mut found = false;
                for (mk, mv) in m.iter() {
                    if denotes(mk, k) && denotes(mv, v) {
                        found = true;
                    }
                }
                if !found {
                    return false;
                }
            }
            true
        }
        (OwnedTerm::InternalFun(f), RV::IntFun { arity, uniq, index, module, old_index, old_uniq, pid, free }) => {
            if !(f.arity == *arity && f.uniq == *uniq && f.index == *index && f.old_index == *old_index
                && f.old_uniq == *old_uniq && bytes_eq(f.module.as_str().as_bytes(), module)
                && f.free_vars.len() == free.len() && f.num_free as usize == free.len())
            {
                return false;
            }
            if let RV::Pid(n, id, serial, creation) = &**pid {
                if !(bytes_eq(f.pid.node.as_str().as_bytes(), n) && f.pid.id == *id && f.pid.serial == *serial && f.pid.creation == *creation) {
                    return false;
                }
            } else {
                return false;
            }
            let mut i = 0;
            while i < free.len() {
                if !denotes(&f.free_vars[i], &free[i]) {
                    return false;
                }
                i += 1;
            }
            true
        }
        _ => false,
    }
}

// ------------------------------------------------------------------ emit (C03: admissible alternatives)

/// Output buffer on the stack (<= 64 cells, so CBMC tracks every cell separately and concrete
/// tag/length bytes stay concrete for the decoder under test).
pub struct Out {
    pub b: [u8; 64],
    pub n: usize,
}
impl Out {
    pub fn new() -> Self {
        Out { b: [0; 64], n: 0 }
    }
    pub fn push(&mut self, x: u8) {
        self.b[self.n] = x;
        self.n += 1;
    }
    pub fn bytes(&self) -> &[u8] {
        &self.b[..self.n]
    }
}

fn put16(o: &mut Out, v: usize) {
    o.push((v >> 8) as u8);
    o.push(v as u8);
}
fn put32(o: &mut Out, v: u64) {
    o.push((v >> 24) as u8);
    o.push((v >> 16) as u8);
    o.push((v >> 8) as u8);
    o.push(v as u8);
}
fn put64(o: &mut Out, v: u64) {
    put32(o, v >> 32);
    put32(o, v & 0xffff_ffff);
}

/// Alternative selector for `emit`; each field picks the encoding of one kind of node.
#[derive(Clone, Copy)]
pub struct Alt {
    /// integers: 0 minimal (97/98/110), 1 INTEGER_EXT when it fits else 110, 2 SMALL_BIG with `pad` extra zero digits, 3 LARGE_BIG
    pub int: u8,
    pub pad: usize,
    /// atoms: 119 / 118 / 115 / 100
    pub atom: u8,
    /// tuples: 104 / 105
    pub tuple: u8,
    /// pids: 88 / 103 ; ports 120 / 89 / 102 ; refs 90 / 114
    pub pid: u8,
    pub port: u8,
    pub reference: u8,
    /// bit strings: 0 = BINARY_EXT when the last byte is whole, else BIT_BINARY_EXT; 1 = always BIT_BINARY_EXT
    pub bits: u8,
}
pub const MODERN: Alt = Alt { int: 0, pad: 0, atom: 119, tuple: 104, pid: 88, port: 120, reference: 90, bits: 0 };

fn emit_atom(o: &mut Out, name: &[u8], alt: &Alt) {
    o.push(alt.atom);
    if alt.atom == 119 || alt.atom == 115 {
        o.push(name.len() as u8);
    } else {
        put16(o, name.len());
    }
    for b in name {
        o.push(*b);
    }
}

fn min_digits(m: u128) -> usize {
    let mut n = 0;
    let mut m = m;
    while m != 0 {
        n += 1;
        m >>= 8;
    }
    if n == 0 { 1 } else { n }
}

pub fn emit(v: &RV, alt: &Alt, o: &mut Out) {
    match v {
        RV::Int(x) if alt.int >= 10 => {
            // forced width (no data-dependent branching: the encoded length stays concrete).
            // 10: SMALL_INTEGER_EXT, 11: INTEGER_EXT, 12: SMALL_BIG_EXT with `pad` digits, 13: LARGE_BIG_EXT with `pad` digits.
            // The harness assumes the value fits; `accepts` re-checks that the bytes encode the value.
            let x = *x;
            if alt.int == 10 {
                o.push(97);
                o.push(x as u8);
            } else if alt.int == 11 {
                o.push(98);
                put32(o, (x as i32) as u32 as u64);
            } else {
                let n = alt.pad;
                if alt.int == 13 {
                    o.push(111);
                    put32(o, n as u64);
                } else {
                    o.push(110);
                    o.push(n as u8);
                }
                o.push(if x < 0 { 1 } else { 0 });
                let mut m = abs128(x);
                let mut i = 0;
                while i < n {
                    o.push((m & 0xff) as u8);
                    m >>= 8;
                    i += 1;
                }
            }
        }
        RV::Int(x) => {
            let x = *x;
            let fits32 = x >= i32::MIN as i128 && x <= i32::MAX as i128;
            if alt.int == 0 && x >= 0 && x <= 255 {
                o.push(97);
                o.push(x as u8);
            } else if (alt.int == 0 || alt.int == 1) && fits32 {
                o.push(98);
                put32(o, (x as i32) as u32 as u64);
            } else {
                let m = abs128(x);
                let n = min_digits(m) + if alt.int == 2 { alt.pad } else { 0 };
                if alt.int == 3 {
                    o.push(111);
                    put32(o, n as u64);
                } else {
                    o.push(110);
                    o.push(n as u8);
                }
                o.push(if x < 0 { 1 } else { 0 });
                let mut m = m;
                let mut i = 0;
                while i < n {
                    o.push((m & 0xff) as u8);
                    m >>= 8;
                    i += 1;
                }
            }
        }
        RV::Float(bits) => {
            o.push(70);
            put64(o, *bits);
        }
        RV::Atom(n) => emit_atom(o, n, alt),
        RV::Nil => o.push(106),
        RV::Bits(b, last) => {
            if alt.bits == 0 && (*last == 8 || b.is_empty()) {
                o.push(109);
                put32(o, b.len() as u64);
            } else {
                o.push(77);
                put32(o, b.len() as u64);
                o.push(*last);
            }
            for x in b {
                o.push(*x);
            }
        }
        RV::Pid(n, id, serial, creation) => {
            o.push(alt.pid);
            emit_atom(o, n, alt);
            put32(o, *id as u64);
            put32(o, *serial as u64);
            if alt.pid == 88 { put32(o, *creation as u64) } else { o.push(*creation as u8) }
        }
        RV::Port(n, id, creation) => {
            o.push(alt.port);
            emit_atom(o, n, alt);
            if alt.port == 120 { put64(o, *id) } else { put32(o, *id) }
            if alt.port == 102 { o.push(*creation as u8) } else { put32(o, *creation as u64) }
        }
        RV::Ref(n, creation, ids) => {
            o.push(alt.reference);
            put16(o, ids.len());
            emit_atom(o, n, alt);
            if alt.reference == 90 { put32(o, *creation as u64) } else { o.push(*creation as u8) }
            for id in ids {
                put32(o, *id as u64);
            }
        }
        RV::ExtFun(m, f, a) => {
            o.push(113);
            emit_atom(o, m, alt);
            emit_atom(o, f, alt);
            o.push(97);
            o.push(*a);
        }
        RV::Tuple(es) => {
            if alt.tuple == 104 {
                o.push(104);
                o.push(es.len() as u8);
            } else {
                o.push(105);
                put32(o, es.len() as u64);
            }
            for e in es {
                emit(e, alt, o);
            }
        }
        RV::List(es, tail) => {
            o.push(108);
            put32(o, es.len() as u64);
            for e in es {
                emit(e, alt, o);
            }
            emit(tail, alt, o);
        }
        RV::Map(kvs) => {
            o.push(116);
            put32(o, kvs.len() as u64);
            for (k, v) in kvs {
                emit(k, alt, o);
                emit(v, alt, o);
            }
        }
        RV::IntFun { .. } | RV::BigWide(..) => {
            // not emitted by the reference (internal funs are exercised through the encoder, C01)
            o.push(0);
        }
    }
}

/// variant code of a term (for "both decoders return the same variant" chains)
pub fn kind_of(t: &OwnedTerm) -> u8 {
    match t {
        OwnedTerm::Integer(_) => 0,
        OwnedTerm::BigInt(_) => 1,
        OwnedTerm::Float(_) => 2,
        OwnedTerm::Atom(_) => 3,
        OwnedTerm::Binary(_) => 4,
        OwnedTerm::BitBinary { .. } => 5,
        OwnedTerm::Nil => 6,
        OwnedTerm::Pid(_) => 7,
        OwnedTerm::Port(_) => 8,
        OwnedTerm::Reference(_) => 9,
        OwnedTerm::ExternalFun(_) => 10,
        OwnedTerm::Tuple(_) => 11,
        OwnedTerm::List(_) => 12,
        OwnedTerm::ImproperList { .. } => 13,
        OwnedTerm::String(_) => 14,
        OwnedTerm::Map(_) => 15,
        OwnedTerm::InternalFun(_) => 16,
    }
}
