//! C10 — identifiers received from a peer are re-emitted byte-for-byte.
//!
//! Decided as a chain (no query holds a decoded term *and* re-encodes it, which CBMC cannot finish
//! for identifier variants): D: decoding `LOCAL_EXT hash8 <identifier>` yields the identifier with
//! exactly the bytes after the LOCAL_EXT tag preserved; E: encoding an identifier that carries
//! preserved bytes emits `LOCAL_EXT` followed by exactly those bytes, also after clone /
//! to-borrowed / to-owned conversions and inside a tuple.  Logical ==/hash/cmp across the two forms
//! are decided by C11/C12 on the `pidl`/`portl`/`refl` shapes.
use crate::refetf::*;
use crate::terms::*;
use crate::vassert;
use crate::vk;
use erltf::{BorrowedTerm, OwnedTerm};

/// which: 0 pid, 1 port, 2 reference
fn local_bytes_of(t: &OwnedTerm) -> Option<&[u8]> {
    match t {
        OwnedTerm::Pid(p) => p.local_ext_bytes.as_ref().map(|b| &b[..]),
        OwnedTerm::Port(p) => p.local_ext_bytes.as_ref().map(|b| &b[..]),
        OwnedTerm::Reference(p) => p.local_ext_bytes.as_ref().map(|b| &b[..]),
        _ => None,
    }
}

/// D: decode keeps the raw bytes
pub fn decode_preserves(r: &RV) {
    let mut out = Out::new();
    out.push(131);
    out.push(121);
    let mut i = 0;
    while i < 8 {
        out.push(vk::u8());
        i += 1;
    }
    emit(r, &MODERN, &mut out);
    match erltf::decode(out.bytes()) {
        Ok(d) => {
            vassert!(denotes(&d, r), "L:local_ext_decodes_to_identifier");
            match local_bytes_of(&d) {
                Some(lb) => {
                    let mut same = lb.len() == out.n - 2;
                    i = 0;
                    while i < lb.len() && 2 + i < out.n {
                        if lb[i] != out.b[2 + i] {
                            same = false;
                        }
                        i += 1;
                    }
                    vassert!(same, "L:raw_local_ext_bytes_preserved");
                }
                None => vassert!(false, "L:raw_local_ext_bytes_kept"),
            }
            vk::leak(d);
        }
        Err(e) => {
            vassert!(false, "L:local_ext_accepted");
            vk::leak(e);
        }
    }
}

fn emits_local(t: &OwnedTerm, raw: &[u8], prefix: &[u8]) {
    match erltf::encode(t) {
        Ok(b) => {
            // [131] ++ prefix ++ [121] ++ raw
            let mut ok = b.len() == 1 + prefix.len() + 1 + raw.len() && b[0] == 131;
            let mut i = 0;
            while i < prefix.len() && 1 + i < b.len() {
                if b[1 + i] != prefix[i] {
                    ok = false;
                }
                i += 1;
            }
            if ok && b[1 + prefix.len()] != 121 {
                ok = false;
            }
            i = 0;
            while i < raw.len() && 2 + prefix.len() + i < b.len() {
                if b[2 + prefix.len() + i] != raw[i] {
                    ok = false;
                }
                i += 1;
            }
            vassert!(ok, "L:reemitted_byte_for_byte");
            vk::leak(b);
        }
        Err(e) => {
            vassert!(false, "L:encode_ok");
            vk::leak(e);
        }
    }
}

/// E: encode replays the raw bytes — bare, after clone, after borrowed round trip, inside a 1-tuple
pub fn encode_replays(t: OwnedTerm, conv: u8) {
    let raw: Vec<u8> = match local_bytes_of(&t) {
        Some(b) => b.to_vec(),
        None => {
            vassert!(false, "L:harness_term_has_local_bytes");
            return;
        }
    };
    if conv == 0 {
        emits_local(&t, &raw, &[]);
    } else if conv == 1 {
        let c = t.clone();
        emits_local(&c, &raw, &[]);
        vk::leak(c);
    } else if conv == 2 {
        let b = BorrowedTerm::from(&t);
        let o = b.to_owned();
        emits_local(&o, &raw, &[]);
        vk::leak(o);
        vk::leak(b);
    } else {
        let mut v = Vec::with_capacity(1);
        v.push(t);
        let tup = OwnedTerm::Tuple(v);
        emits_local(&tup, &raw, &[104, 1]);
        vk::leak(tup);
        vk::leak(raw);
        return;
    }
    vk::leak(raw);
    vk::leak(t);
}
