//! C11 — comparison is a lawful total preorder consistent with == and Hash (OwnedTerm and BorrowedTerm).
use crate::terms::*;
use crate::vassert;
use erltf::{BorrowedTerm, OwnedTerm};
use std::cmp::Ordering;

/// all pair laws on one pair of well-formed terms
pub fn pair_laws(a: &OwnedTerm, b: &OwnedTerm) {
    let ab = a.cmp(b);
    let ba = b.cmp(a);
    vassert!(ab == ba.reverse(), "L:antisym");
    if a == b {
        vassert!(ab == Ordering::Equal, "L:eq_implies_cmp_equal");
        vassert!(transcript(a).same(&transcript(b)), "L:eq_implies_hash_equal");
    }
    vassert!(a.cmp(a) == Ordering::Equal, "L:reflexive");
}

/// the zero-copy type orders the pair exactly as the owned type
pub fn borrowed_agrees(a: &OwnedTerm, b: &OwnedTerm) {
    let (x, y) = (BorrowedTerm::from(a), BorrowedTerm::from(b));
    let o = x.cmp(&y);
    vassert!(o == a.cmp(b), "L:borrowed_cmp_agrees");
    vassert!((x == y) == (a == b), "L:borrowed_eq_agrees");
    std::mem::forget(x);
    std::mem::forget(y);
}

pub fn trans(a: &OwnedTerm, b: &OwnedTerm, c: &OwnedTerm) {
    if a.cmp(b) != Ordering::Greater && b.cmp(c) != Ordering::Greater {
        vassert!(a.cmp(c) != Ordering::Greater, "L:transitive_le");
    }
    // equivalence part of the preorder: Equal is transitive too
    if a.cmp(b) == Ordering::Equal && b.cmp(c) == Ordering::Equal {
        vassert!(a.cmp(c) == Ordering::Equal, "L:transitive_eq");
    }
}
