//! Harness crate for solver-based checking of michaelklishin/edp-rs (see /verif/DESIGN.md).
//! Every `pub fn cNN_*` in `gen/` is a `#[kani::proof]` under Kani and an ordinary function
//! for the native replay binary.
#![allow(unused, clippy::all)]
pub mod vk;
pub mod terms;
pub mod refetf;
pub mod stubs;

macro_rules! prop {
    ($feat:literal, $m:ident, $g:ident, $path:literal) => {
        #[cfg(feature = $feat)]
        pub mod $m;
        #[cfg(feature = $feat)]
        #[path = $path]
        pub mod $g;
    };
}
prop!("c00", c00, gen_c00, "gen/c00.rs");
prop!("c01", c01, gen_c01, "gen/c01.rs");
prop!("c02", c02, gen_c02, "gen/c02.rs");
prop!("c03", c03, gen_c03, "gen/c03.rs");
prop!("c04", c04, gen_c04, "gen/c04.rs");
prop!("c05", c05, gen_c05, "gen/c05.rs");
prop!("c08", c08, gen_c08, "gen/c08.rs");
prop!("c09", c09, gen_c09, "gen/c09.rs");
prop!("c10", c10, gen_c10, "gen/c10.rs");
prop!("c11", c11, gen_c11, "gen/c11.rs");
prop!("c12", c12, gen_c12, "gen/c12.rs");
prop!("c13", c13, gen_c13, "gen/c13.rs");
prop!("c15", c15, gen_c15, "gen/c15.rs");
prop!("c20", c20, gen_c20, "gen/c20.rs");

/// harness table for the replay binary
pub fn tables() -> Vec<&'static [(&'static str, fn())]> {
    let mut v: Vec<&'static [(&'static str, fn())]> = Vec::new();
    #[cfg(feature = "c00")]
    v.push(gen_c00::TABLE);
    #[cfg(feature = "c01")]
    v.push(gen_c01::TABLE);
    #[cfg(feature = "c02")]
    v.push(gen_c02::TABLE);
    #[cfg(feature = "c03")]
    v.push(gen_c03::TABLE);
    #[cfg(feature = "c04")]
    v.push(gen_c04::TABLE);
    #[cfg(feature = "c05")]
    v.push(gen_c05::TABLE);
    #[cfg(feature = "c08")]
    v.push(gen_c08::TABLE);
    #[cfg(feature = "c09")]
    v.push(gen_c09::TABLE);
    #[cfg(feature = "c10")]
    v.push(gen_c10::TABLE);
    #[cfg(feature = "c11")]
    v.push(gen_c11::TABLE);
    #[cfg(feature = "c12")]
    v.push(gen_c12::TABLE);
    #[cfg(feature = "c13")]
    v.push(gen_c13::TABLE);
    #[cfg(feature = "c15")]
    v.push(gen_c15::TABLE);
    #[cfg(feature = "c20")]
    v.push(gen_c20::TABLE);
    v
}
