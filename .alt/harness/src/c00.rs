// scratch helpers
