//! C09 — fragment reassembly returns the original message once, in any arrival order.
use crate::vassert;
use crate::vk;
use edp_client::fragmentation::FragmentAssembler;

/// One sequence of N fragments, one symbolic byte each.  The peer numbers the first fragment N
/// (it carries the start of the data) and counts down to 1.  `order[k]` is the protocol position
/// (0 = first fragment = id N) delivered k-th; `dup` (if < N) re-delivers that arrival once more
/// right after it.
pub fn one_sequence<const N: usize>(order: [usize; N], dup: usize, seq: u64) {
    let mut data = [0u8; N];
    let mut i = 0;
    while i < N {
        data[i] = vk::u8();
        i += 1;
    }
    let mut asm = FragmentAssembler::new();
    let mut k = 0;
    let mut delivered = 0;
    while k < N {
        let pos = order[k];
        let id = (N - pos) as u64;
        let mut rounds = if k == dup { 2 } else { 1 };
        while rounds > 0 {
            let payload = vec![data[pos]];
            let r = if pos == 0 { asm.start_fragment(seq, id, None, payload) } else { asm.add_fragment(seq, id, payload) };
            let first_delivery = !(k == dup && rounds == 1);
            if first_delivery {
                delivered += 1;
            }
            if delivered == N && first_delivery {
                match r {
                    Some(out) => {
                        vassert!(out.len() == N, "L:reassembled_length");
                        let mut j = 0;
                        let mut same = true;
                        while j < N && j < out.len() {
                            if out[j] != data[j] {
                                same = false;
                            }
                            j += 1;
                        }
                        // weaker than the order law, but independent of it: every fragment's byte exactly once
                        let mut perm = out.len() == N;
                        j = 0;
                        while j < N && perm {
                            let (mut ca, mut cb) = (0, 0);
                            let mut q = 0;
                            while q < N {
                                if data[q] == data[j] {
                                    ca += 1;
                                }
                                if out[q] == data[j] {
                                    cb += 1;
                                }
                                q += 1;
                            }
                            if ca != cb {
                                perm = false;
                            }
                            j += 1;
                        }
                        vassert!(perm, "L:reassembled_has_every_fragment_exactly_once");
                        vassert!(same, "L:reassembled_in_original_order");
                        vk::leak(out);
                    }
                    None => vassert!(false, "L:complete_when_last_missing_fragment_arrives"),
                }
                vassert!(asm.pending_count() == 0, "L:completed_sequence_removed");
            } else if delivered < N {
                vassert!(r.is_none(), "L:nothing_before_complete");
                vassert!(asm.pending_count() == 1, "L:incomplete_sequence_held");
                vk::leak(r);
            } else {
                vk::leak(r); // duplicate of the completing fragment: starts a new (incomplete) sequence or is ignored
            }
            rounds -= 1;
        }
        k += 1;
    }
    vk::leak(asm);
}

/// two sequences with distinct symbolic ids, two fragments each, interleaved: isolation
pub fn two_sequences(first_b_after: usize) {
    // concrete ids: a symbolic key makes SipHash and the table probe sequence symbolic (CBMC does not finish)
    let (s1, s2) = (0x0102_0304_0506_0708u64, u64::MAX);
    let (a0, a1, b0, b1) = (vk::u8(), vk::u8(), vk::u8(), vk::u8());
    let mut asm = FragmentAssembler::new();
    // A header
    let r = asm.start_fragment(s1, 2, None, vec![a0]);
    vassert!(r.is_none(), "L:nothing_before_complete");
    // B: continuation first (before its header)
    let r = asm.add_fragment(s2, 1, vec![b1]);
    vassert!(r.is_none(), "L:nothing_before_complete");
    vassert!(asm.pending_count() == 2, "L:two_incomplete_sequences_held");
    if first_b_after == 0 {
        let r = asm.start_fragment(s2, 2, None, vec![b0]);
        match r {
            Some(out) => {
                vassert!(out.len() == 2 && ((out[0] == b0 && out[1] == b1) || (out[0] == b1 && out[1] == b0)), "L:reassembled_has_every_fragment_exactly_once");
                vassert!(out.len() == 2 && out[0] == b0 && out[1] == b1, "L:reassembled_in_original_order");
                vk::leak(out);
            }
            None => vassert!(false, "L:complete_when_last_missing_fragment_arrives"),
        }
        vassert!(asm.pending_count() == 1, "L:completed_sequence_removed");
    }
    let r = asm.add_fragment(s1, 1, vec![a1]);
    match r {
        Some(out) => {
            vassert!(out.len() == 2 && ((out[0] == a0 && out[1] == a1) || (out[0] == a1 && out[1] == a0)), "L:sequences_isolated");
            vassert!(out.len() == 2 && out[0] == a0 && out[1] == a1, "L:reassembled_in_original_order");
            vk::leak(out);
        }
        None => vassert!(false, "L:complete_when_last_missing_fragment_arrives"),
    }
    vk::leak(asm);
}

/// fragment id 0 and ids above the count change nothing
pub fn out_of_range_ids() {
    let seq = 77u64;
    let (a0, a1) = (vk::u8(), vk::u8());
    let mut asm = FragmentAssembler::new();
    let r = asm.start_fragment(seq, 2, None, vec![a0]);
    vassert!(r.is_none(), "L:nothing_before_complete");
    let bad = vk::u64();
    vk::assume(bad == 0 || bad > 2);
    let r = asm.add_fragment(seq, bad, vec![vk::u8()]);
    vassert!(r.is_none(), "L:out_of_range_id_ignored");
    vassert!(asm.pending_count() == 1, "L:out_of_range_id_keeps_state");
    let r = asm.add_fragment(seq, 1, vec![a1]);
    match r {
        Some(out) => {
            vassert!(out.len() == 2 && ((out[0] == a0 && out[1] == a1) || (out[0] == a1 && out[1] == a0)), "L:reassembled_has_every_fragment_exactly_once");
            vassert!(out.len() == 2 && out[0] == a0 && out[1] == a1, "L:reassembled_in_original_order");
            vk::leak(out);
        }
        None => vassert!(false, "L:complete_when_last_missing_fragment_arrives"),
    }
    vk::leak(asm);
}

/// a continuation with an id above the (not yet known) count arrives before the header: it must not
/// count towards completion
pub fn early_out_of_range() {
    let seq = 0u64;
    let (a0, a1) = (vk::u8(), vk::u8());
    let mut asm = FragmentAssembler::new();
    let bad = vk::u64();
    vk::assume(bad > 2);
    let r = asm.add_fragment(seq, bad, vec![vk::u8()]);
    vassert!(r.is_none(), "L:nothing_before_complete");
    let r = asm.start_fragment(seq, 2, None, vec![a0]);
    vassert!(r.is_none(), "L:out_of_range_early_fragment_does_not_complete");
    vk::leak(r);
    let r = asm.add_fragment(seq, 1, vec![a1]);
    match r {
        Some(out) => {
            vassert!(out.len() == 2 && out[0] == a0 && out[1] == a1, "L:reassembled_in_original_order");
            vk::leak(out);
        }
        None => vassert!(false, "L:complete_when_last_missing_fragment_arrives"),
    }
    vassert!(asm.pending_count() == 0, "L:completed_sequence_removed");
    vk::leak(asm);
}
