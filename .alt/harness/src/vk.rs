//! Facade over Kani's nondeterminism so every harness also compiles as ordinary Rust.
//!
//! Under `cfg(kani)` each function is `kani::any()` of a *scalar* type (so a CBMC trace
//! lists one `kani::any_raw_*` return value per call, in call order).  In an ordinary
//! build (`replay` binary) the same calls pop little-endian values from a queue filled
//! from a counterexample file, so the solver's assignment is re-executed on the real
//! crates, natively, in dev and release profile.

#[cfg(not(kani))]
pub mod native {
    use std::cell::RefCell;
    use std::collections::VecDeque;
    thread_local! {
        pub static QUEUE: RefCell<VecDeque<u64>> = RefCell::new(VecDeque::new());
        pub static REACHED: RefCell<bool> = RefCell::new(false);
        pub static EXHAUSTED: RefCell<bool> = RefCell::new(false);
    }
    pub fn load(vals: &[u64]) {
        QUEUE.with(|q| {
            let mut q = q.borrow_mut();
            q.clear();
            q.extend(vals.iter().copied());
        });
        REACHED.with(|r| *r.borrow_mut() = false);
        EXHAUSTED.with(|r| *r.borrow_mut() = false);
    }
    pub fn pop() -> u64 {
        QUEUE.with(|q| match q.borrow_mut().pop_front() {
            Some(v) => v,
            None => {
                EXHAUSTED.with(|r| *r.borrow_mut() = true);
                0
            }
        })
    }
    pub fn reached() -> bool {
        REACHED.with(|r| *r.borrow())
    }
    pub fn exhausted() -> bool {
        EXHAUSTED.with(|r| *r.borrow())
    }
    /// exit code 3 = "assumption violated": the counterexample does not satisfy the
    /// harness's own precondition natively => encoding mismatch, not a violation.
    pub fn assumption_failed() -> ! {
        eprintln!("REPLAY: assumption violated");
        std::process::exit(3)
    }
}

macro_rules! scalar {
    ($name:ident, $t:ty) => {
        #[inline(never)]
        pub fn $name() -> $t {
            #[cfg(kani)]
            {
                kani::any::<$t>()
            }
            #[cfg(not(kani))]
            {
                native::pop() as $t
            }
        }
    };
}
scalar!(u8, u8);
scalar!(u16, u16);
scalar!(u32, u32);
scalar!(u64, u64);
scalar!(i8, i8);
scalar!(i16, i16);
scalar!(i32, i32);
scalar!(i64, i64);

pub fn usize() -> usize {
    u64() as usize
}
pub fn bool() -> bool {
    (u8() & 1) == 1
}
/// any f64 bit pattern
pub fn f64_bits() -> f64 {
    f64::from_bits(u64())
}
/// any finite f64 (NaN and infinities excluded: the properties quantify over finite floats)
pub fn f64_finite() -> f64 {
    let f = f64_bits();
    assume(f.is_finite());
    f
}
pub fn f32_bits() -> f32 {
    f32::from_bits(u32())
}
pub fn char() -> char {
    let c = u32();
    assume(c < 0xD800 || (c > 0xDFFF && c <= 0x10FFFF));
    char::from_u32(c).unwrap()
}
/// value in lo..=hi
pub fn u8_in(lo: u8, hi: u8) -> u8 {
    let v = u8();
    assume(v >= lo && v <= hi);
    v
}
pub fn usize_in(lo: usize, hi: usize) -> usize {
    let v = usize();
    assume(v >= lo && v <= hi);
    v
}

#[inline(always)]
pub fn assume(c: bool) {
    #[cfg(kani)]
    kani::assume(c);
    #[cfg(not(kani))]
    if !c {
        native::assumption_failed();
    }
}

/// Vacuity witness: the driver requires this cover point to be reachable in every harness.
#[inline(always)]
pub fn reached() {
    #[cfg(kani)]
    kani::cover!(true, "VERIF_REACHED");
    #[cfg(not(kani))]
    native::REACHED.with(|r| *r.borrow_mut() = true);
}

/// Labelled assertion.  The label is the role key used by known_findings.json.
#[macro_export]
macro_rules! vassert {
    ($c:expr, $l:literal) => {
        assert!($c, $l)
    };
}

/// Leak a value: destructors are not part of any claimed property (DESIGN 2.2 T1).
#[inline(always)]
pub fn leak<T>(t: T) {
    std::mem::forget(t)
}

/// T3: budget for a single allocation request, checked by `verif_lib_cap.c` under CBMC and by the
/// counting global allocator of the native replay binary.
#[cfg(kani)]
#[unsafe(no_mangle)]
pub static mut __verif_alloc_cap: usize = usize::MAX;
#[cfg(not(kani))]
pub static NATIVE_ALLOC_CAP: std::sync::atomic::AtomicUsize = std::sync::atomic::AtomicUsize::new(usize::MAX);

pub fn set_alloc_cap(n: usize) {
    #[cfg(kani)]
    unsafe {
        __verif_alloc_cap = n;
    }
    #[cfg(not(kani))]
    NATIVE_ALLOC_CAP.store(n, std::sync::atomic::Ordering::SeqCst);
}
