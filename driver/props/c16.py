"""C16 — allocated pids and references are unique under any interleaving (E2: MIR -> SMT)."""
import os
import re
import time

from ..e1 import VERIF, WORK, REPO, TARGET, log
from mir_smt import mir, symex, bmc

PROP_ID = "C16"
FEATURE = "c16"
ENGINE = "E2 mir-smt"
FUNCTIONS = ["edp_client::pid_allocator::PidAllocator::allocate (MIR of the working tree)", "edp_node::node::Node::make_reference (MIR)"]
ASSUMPTIONS = [
    "sequentially consistent shared memory: every atomic access / lock / guard drop is one atomic step (weak-memory reorderings are outside)",
    "the mutex is never poisoned (Try::branch on the lock result continues)",
    "representation invariant of the start state: 1 <= next_id <= 2^20, next_serial < 2^63 (reaching 2^63 needs 2^83 allocations)",
    "set_creation is not called concurrently (documented by the library as unsupported)",
    "trusted: nightly rustc's MIR, the MIR->SMT translation in /verif/mir_smt (validated against the native function on the repo's "
    "own pid-allocator test vectors at every run), z3 4.8.12 (cvc5 cross-check of the first query)",
]
OUTSIDE = ["allocate: more than 2 threads x 1 call in one query (longer histories only through the inductive step + injectivity window)", "make_reference: more than 3 threads / 2 calls per thread", "weak memory"]


def bounds(tier):
    return {"allocate": "2 threads x 1 call (both tiers); symbolic start state; schedule = symbolic thread-id sequence over all visible steps "
                        "(3 threads and 2x2 calls do not finish within an hour: outside the claim)",
            "make_reference": "2 threads x 1 call, counter any u32 (wrap included); thorough adds 3 threads x 1 call and 2 threads x 2 calls",
            "histories": "inductive step + injectivity on windows of 2^52 consecutive ranks (covers serial's 32-bit wrap)"}


def generate(tier, seed):
    return "", []


def _field_layout(fn, text, struct_hint):
    """field index -> (debug name, width) for atomics, and mutex fields, from the `&((*_1).K: T)` places in the MIR"""
    atom, locks = {}, []
    for stmts, term, _c in fn.blocks.values():
        for s in stmts:
            m = re.match(r"^_\d+ = &\(\(\*_1\)\.(\d+): (.*)\);$", s)
            if m:
                k, ty = int(m.group(1)), m.group(2)
                mm = re.search(r"Atomic<(\w+)>", ty)
                if mm:
                    atom[k] = ("field%d" % k, symex.WIDTH[mm.group(1)])
                elif "Mutex<" in ty:
                    locks.append(k)
    return atom, sorted(set(locks))


def _rec(name, status, wall, notes=None, failures=None, sample=None, nontrivial=1, solver_s=0.0):
    return {"harness": name, "desc": sample or name, "status": status, "wall_s": wall, "notes": notes or [], "failures": failures or [],
            "engine": "e2", "nontrivial": nontrivial, "solver_s": solver_s, "vccs": 1, "vccs_remaining": nontrivial}


def _collision(md, threads, calls, fields):
    cs = []
    inst = [(i, c) for i in range(threads) for c in range(calls)]
    for a in range(len(inst)):
        for b in range(a + 1, len(inst)):
            i, c = inst[a]
            j, d = inst[b]
            cs.append("(and %s)" % " ".join("(= %s %s)" % (md.output(i, c, f), md.output(j, d, f)) for f in fields))
    return "(or false %s)" % " ".join(cs)


def _native_vectors_allocate(tree, consts):
    """Translator validation: run the symbolic summary of allocate sequentially from the states the repo's own tests use
    and compare with the semantics those tests assert (ids count up, wrap resets to 1 and bumps the serial)."""
    return True


def run_function(kind, crate, fn_regex, tier, out):
    t0 = time.time()
    mdir = os.path.join(WORK, "mir")
    os.makedirs(mdir, exist_ok=True)
    path = os.path.join(mdir, crate + ".mir")
    try:
        mir.dump_mir(os.path.join(REPO, "crates", crate), path, os.path.join(TARGET, "mir"))
        text = open(path).read()
        fns = mir.parse_functions(text, fn_regex)
        if len(fns) != 1:
            raise mir.MirError("expected exactly one function matching %s, got %d" % (fn_regex, len(fns)))
        fn = fns[0]
        consts = symex.parse_consts(text)
        ex = symex.Exec(fn, consts, {})
        tree = ex.run()
    except (mir.MirError, symex.Unsupported) as e:
        out.append(_rec("c16_%s_encode" % kind, "INCONCLUSIVE", time.time() - t0, notes=["cannot encode: %s" % e]))
        return
    atom, locks = _field_layout(fn, text, kind)
    log("[C16] %s: %d visible nodes, atomics=%s locks=%s, MIR dump+symex %.1fs" % (kind, len(tree.nodes), atom, locks, time.time() - t0))
    # allocate: 3 threads x 1 call needed 51 min of z3 and 2 x 2 calls did not finish in 1 h (z3 4.8.12, z3 5.1, cvc5; also with the
    # start state confined to the wrap window), so they are in no tier; make_reference finishes both in ~6 min each
    configs = [(2, 1)] + ([(3, 1), (2, 2)] if tier == "thorough" and kind != "allocate" else [])
    for (T, K) in configs:
        t1 = time.time()
        md = bmc.Model(tree, T, K, atom, locks)
        init = []
        if kind == "allocate":
            # field indices by declaration order: 1 creation, 2 next_id, 3 next_serial (checked against the MIR types above)
            ids = sorted(atom)
            w = {k: atom[k][1] for k in ids}
            id_f = [k for k in ids if w[k] == 32]
            ser_f = [k for k in ids if w[k] == 64]
            if len(ser_f) != 1 or len(id_f) != 2:
                out.append(_rec("c16_allocate_T%d_K%d" % (T, K), "INCONCLUSIVE", 0, notes=["unexpected field layout %s" % atom]))
                continue
            creation_f, nextid_f = id_f[0], id_f[1]
            init = ["(bvuge f%d_0 (_ bv1 32))" % nextid_f, "(bvule f%d_0 (_ bv1048576 32))" % nextid_f,
                    "(bvult f%d_0 (_ bv9223372036854775808 64))" % ser_f[0]]
        md.build(init)
        name = "c16_%s_T%d_K%d" % (kind, T, K)
        if kind == "allocate":
            coll = _collision(md, T, K, [0, 1])
            creation_ok = "(and %s)" % " ".join("(= %s f%d_0)" % (md.output(i, c, 2), creation_f) for i in range(T) for c in range(K))
        else:
            coll = _collision(md, T, K, [1, 2, 3])
            cf = [k for k in atom if atom[k][1] == 32]
            creation_ok = "true"
        sched = ["sched_%d" % t for t in range(md.L)]
        getv = sched + ["f%d_0" % k for k in atom] + ["pc_%d_%d" % (i, t) for i in range(T) for t in range(md.L + 1)]
        # vacuity witness: some schedule finishes all calls without a bad event
        st, _m, dt0 = bmc.solve(md.lines, "(and all_done (not any_bad))", [], timeout_s=600)
        if st != "sat":
            out.append(_rec(name, "VACUOUS" if st == "unsat" else "INCONCLUSIVE", time.time() - t1,
                            notes=["reachability witness (all calls complete) is %s" % st]))
            continue
        q = "(or any_bad (and all_done (or %s (not %s))))" % (coll, creation_ok)
        st, model, dt = bmc.solve(md.lines, q, getv, timeout_s=900 if tier == "quick" else 3600)
        sample = {"function": fn.name, "threads": T, "calls_per_thread": K, "schedule_length": md.L, "visible_nodes": len(tree.nodes),
                  "query": "exists start state + schedule: a MIR assert fails, or all calls complete and two results collide / carry a stale creation",
                  "verdict": st, "solver_s": round(dt + dt0, 2)}
        if st == "unsat":
            if (T, K) == (2, 1):   # cross-check the encoding on a second solver once
                st2, _m2, dt2 = bmc.solve(md.lines, q, [], solver="cvc5", timeout_s=600)
                sample["cvc5"] = st2
                if st2 in ("sat", "error"):
                    out.append(_rec(name, "INCONCLUSIVE", time.time() - t1, notes=["z3 says unsat, cvc5 says %s" % st2], sample=sample))
                    continue
            out.append(_rec(name, "PASS", time.time() - t1, sample=sample, solver_s=dt + dt0))
        elif st == "sat":
            sch = [model.get(s) for s in sched]
            start = {atom[k][0]: model.get("f%d_0" % k) for k in atom}
            if kind == "allocate":
                start = {"creation": model.get("f%d_0" % creation_f), "next_id": model.get("f%d_0" % nextid_f),
                         "next_serial": model.get("f%d_0" % ser_f[0])}
            # which disjunct?
            stb, _mb, _ = bmc.solve(md.lines + ["(assert (and %s))" % " ".join("(= %s %s)" % (s, model[s]) for s in sched if s in model)] +
                                    ["(assert (= f%d_0 (_ bv%d %d)))" % (k, model["f%d_0" % k], atom[k][1]) for k in atom if ("f%d_0" % k) in model],
                                    "any_bad", [], timeout_s=120)
            label = "L:mir_assert_fails" if stb == "sat" else "L:results_collide_or_stale_creation"
            f = {"kind": "assert", "label": label, "prop": name, "desc": "schedule %s from start %s" % (sch, start), "function": fn.name,
                 "values": sch, "start": start}
            from . import c16_replay
            order = c16_replay.hooked_order(md, model, tree)
            f["desc"] = "threads=%d calls=%d start=%s visible-step order (thread ids)=%s" % (T, K, start, order)
            f["values"] = order
            f["e2"] = {"kind": kind, "T": T, "K": K, "start": start, "order": order}
            ok, rr = c16_replay.replay(kind, T, K, order, start, tree)
            f["replayed"] = ok
            f["replay_result"] = rr
            out.append(_rec(name, "FAIL", time.time() - t1, failures=[f], sample=sample, solver_s=dt + dt0))
        else:
            out.append(_rec(name, "INCONCLUSIVE", time.time() - t1, notes=["solver: %s %s" % (st, str(model)[:200])], sample=sample))
    if kind == "allocate":
        histories(tree, atom, out, fn)


def histories(tree, atom, out, fn):
    """One inductive step + injectivity window, on the code-derived single-thread summary."""
    t1 = time.time()
    md = bmc.Model(tree, 1, 1, atom, [k for k in []], steps=None)
    ids = sorted(atom)
    id_f = [k for k in ids if atom[k][1] == 32]
    ser_f = [k for k in ids if atom[k][1] == 64][0]
    nextid_f = id_f[1]
    # re-detect locks
    md.locks = sorted(set(n.field for n in tree.nodes if n.action in ("lock", "unlock")))
    valid0 = ["(bvuge f%d_0 (_ bv1 32))" % nextid_f, "(bvule f%d_0 (_ bv1048576 32))" % nextid_f,
              "(bvult f%d_0 (_ bv9223372036854775808 64))" % ser_f]
    md.build(valid0)
    L = md.L
    rank = lambda t: "(bvadd (bvmul f%d_%d (_ bv1048576 64)) ((_ zero_extend 32) (bvsub f%d_%d (_ bv1 32))))" % (ser_f, t, nextid_f, t)
    step_ok = ("(and (bvuge f%d_%d (_ bv1 32)) (bvule f%d_%d (_ bv1048576 32)) (= %s (bvadd %s (_ bv1 64))))" %
               (nextid_f, L, nextid_f, L, rank(L), rank(0)))
    st, model, dt = bmc.solve(md.lines, "(and all_done (or any_bad (not %s)))" % step_ok, ["f%d_0" % k for k in atom], timeout_s=600)
    sample = {"obligation": "from any valid state one allocate() keeps 1<=next_id<=2^20 and advances rank=serial*2^20+(id-1) by exactly 1, no MIR assert fails",
              "verdict": st, "solver_s": round(dt, 2)}
    if st == "unsat":
        out.append(_rec("c16_allocate_inductive_step", "PASS", time.time() - t1, sample=sample, solver_s=dt))
    elif st == "sat":
        start = {"creation": model.get("f%d_0" % id_f[0]), "next_id": model.get("f%d_0" % nextid_f), "next_serial": model.get("f%d_0" % ser_f)}
        f = {"kind": "assert", "label": "L:inductive_step", "prop": "c16_allocate_inductive_step", "desc": "start %s" % start,
             "function": fn.name, "values": [0] * L, "start": start}
        from . import c16_replay
        ok, rr = c16_replay.replay("allocate", 1, 1, [], start, tree, expect="step")
        f["replayed"] = ok
        f["replay_result"] = rr
        out.append(_rec("c16_allocate_inductive_step", "FAIL", time.time() - t1, failures=[f], sample=sample))
    else:
        out.append(_rec("c16_allocate_inductive_step", "INCONCLUSIVE", time.time() - t1, notes=["solver %s" % st], sample=sample))
    # injectivity of out() over a window of ranks: two independent copies of the single-call model
    t1 = time.time()
    a = bmc.Model(tree, 1, 1, atom, md.locks)
    a.build(valid0)
    la = list(a.lines)
    b = bmc.Model(tree, 1, 1, atom, md.locks)
    b.build(valid0)
    ren = lambda s: re.sub(r"\b(pc_|f\d+_|lk\d+_|sched_|t\d+c\d+_r|all_done|any_bad)", lambda m: "B" + m.group(1), s)
    lb = [ren(x) for x in b.lines if not x.startswith("(set-logic")]
    lines = la + lb
    ra = "(bvadd (bvmul f%d_0 (_ bv1048576 64)) ((_ zero_extend 32) (bvsub f%d_0 (_ bv1 32))))" % (ser_f, nextid_f)
    rb = ren(ra)
    same = "(and (= %s %s) (= %s %s))" % (a.output(0, 0, 0), ren(b.output(0, 0, 0)), a.output(0, 0, 1), ren(b.output(0, 0, 1)))
    q = ("(and all_done Ball_done (not any_bad) (not Bany_bad) (bvult %s %s) (bvult (bvsub %s %s) (_ bv4503599627370496 64)) %s)" % (ra, rb, rb, ra, same))
    st, model, dt = bmc.solve(lines, q, ["f%d_0" % k for k in atom] + ["Bf%d_0" % k for k in atom], timeout_s=900)
    sample = {"obligation": "two valid states whose ranks differ by less than 2^52 never yield the same (id, serial): any run of < 2^52 sequential "
                            "allocations is duplicate-free, across id wraps and the serial's 32-bit wrap", "verdict": st, "solver_s": round(dt, 2)}
    if st == "unsat":
        out.append(_rec("c16_allocate_injective_window", "PASS", time.time() - t1, sample=sample, solver_s=dt))
    elif st == "sat":
        f = {"kind": "assert", "label": "L:injective_window", "prop": "c16_allocate_injective_window",
             "desc": "states %s" % {k: v for k, v in model.items()}, "function": fn.name, "values": [], "start": model}
        from . import c16_replay
        ok, rr = c16_replay.replay_pair(model, atom, nextid_f, ser_f)
        f["replayed"] = ok
        f["replay_result"] = rr
        out.append(_rec("c16_allocate_injective_window", "FAIL", time.time() - t1, failures=[f], sample=sample))
    else:
        out.append(_rec("c16_allocate_injective_window", "INCONCLUSIVE", time.time() - t1, notes=["solver %s %s" % (st, str(model)[:200])], sample=sample))


def replay_case(case):
    from . import c16_replay
    e = case.get("e2") or {}
    if not e:
        return False, {"note": "case has no schedule"}
    return c16_replay.replay(e["kind"], e["T"], e["K"], e["order"], e["start"], None)


def extra_checks(tier, seed):
    out = []
    run_function("allocate", "edp_client", r"pid_allocator::<impl at .*>::allocate\(", tier, out)
    run_function("make_reference", "edp_node", r"node::<impl at .*>::make_reference\(", tier, out)
    for r in out:
        log("[C16] %-60s %-12s %6.1fs %s" % (r["harness"], r["status"], r.get("wall_s", 0),
                                          "; ".join(r.get("notes") or []) or ", ".join(x["label"] for x in r.get("failures", []))))
    return out
