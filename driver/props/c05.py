"""C05 — framing is invariant under how the transport splits the byte stream."""
from ..e1 import Harness
from . import c09_e1_experiment as c09

PROP_ID = "C05"
FEATURE = "c05"
ENGINE = "E1 kani-cbmc"
QUICK_MAX_S = 125
FUNCTIONS = ["edp_client::framing::MessageFramer::{frame_message, write_framed}", "MessageDeframer::read_framed (hand-polled over a harness AsyncRead)",
             "tokio::io::util::{read_exact, read_int, write_all, write_int, flush} futures as compiled"]
ASSUMPTIONS = c09.ASSUMPTIONS[:2] + ["std::fmt::format stubbed", "the chunking (all 2^(n-1) compositions of the stream, one optional Pending) is "
                                     "enumerated inside the harness; the solver decides over all payload bytes (schedule_quantifier: enumerated)"]
OUTSIDE = ["streams longer than 9 bytes, messages longer than 2 bytes, lengths near 2^16 / the 256 MiB cap other than the listed concrete ones",
           "the node's second read loop (receive_message_from_read_half takes a concrete OwnedReadHalf)"]
STUBS = c09.STUBS


def bounds(tier):
    return {"reader": "2 messages, lengths in {0,1,2}, both modes, every composition of the stream, Pending before chunk 0/1/none",
            "writer": "payload 0..3 bytes, sink accepting 1 or 16 bytes per write, both modes",
            "errors": "declared 256MiB+1 / 2^32-1 with 0 or 2 body bytes; declared 5 with 0..3 body bytes"}


def fn(name, body):
    return STUBS + "#[cfg_attr(kani, kani::proof)]\npub fn %s() {\n%s\n    vk::reached();\n}\n" % (name, body)


def H(n, d):
    return Harness(n, d, unwind=20, cap_s=900, mem_gb=12, unwindset=[(r"^c05::reader_all_chunkings", 600)])


def generate(tier, seed):
    src = ["use crate::c05::*;\nuse crate::vk;\n"]
    hs = []
    for dist in (False, True):
        md = "dist" if dist else "hs"
        for L in (0, 1, 3):
            for mw in (1, 16):
                n = "c05_writer__%s_len%d_w%d" % (md, L, mw)
                src.append(fn(n, "    writer_agrees::<%d>(%s, %d);" % (L, str(dist).lower(), mw)))
                hs.append(H(n, "frame_message == length prefix ++ payload == bytes written by write_framed (mode %s, %d payload bytes, sink takes %d/write)" % (md, L, mw)))
        pairs = [(0, 1), (1, 0), (2, 1), (1, 2)] if tier == "thorough" else [(0, 1), (2, 1)]
        for (a, b) in pairs:
            for pend in ((99, 0, 1) if tier == "thorough" else (99, 1)):
                if dist and (a + b) > 2 and tier == "quick":
                    continue
                n = "c05_reader__%s_%d_%d_pend%d" % (md, a, b, pend)
                src.append(fn(n, "    reader_all_chunkings::<%d, %d>(%s, %d);" % (a, b, str(dist).lower(), pend)))
                hs.append(H(n, "messages of %d and %d symbolic bytes (mode %s) are returned intact under every cut of the stream into reads, Pending before chunk %s" % (a, b, md, pend)))
    for declared, have in ((268435457, 0), (268435457, 2), (4294967295, 0), (5, 0), (5, 3)):
        n = "c05_errors__declared%d_have%d" % (declared, have)
        src.append(fn(n, "    reader_errors(%du32, %d);" % (declared, have)))
        hs.append(H(n, "declared length %d with %d body bytes then EOF: oversize -> InvalidData before reading; short -> UnexpectedEof" % (declared, have)))
    return "\n".join(src), hs
