"""C10 (E2 part): the owned<->zero-copy conversions keep an identifier's preserved LOCAL_EXT bytes.

`BorrowedTerm::to_owned` and `<BorrowedTerm as From<&OwnedTerm>>::from` are executed symbolically from the MIR of the working
tree, once per discriminant value of the input enum; the payload of the input is one opaque identifier record.  For the three
identifier arms the result must be the same variant carrying *that very record* (a derived `Clone` of it) - an identifier
rebuilt through `External*::new(..)` has lost its `local_ext_bytes`.  CBMC cannot finish these conversions for the untagged
`Reference` variant (see the E1 harnesses c10_conversion_preserves__*), which is why this part is decided here."""
import os
import time

from ..e1 import WORK, REPO, TARGET, log
from mir_smt import mir, symex

FNS = [("to_owned", r"borrowed::<impl at [^>]*>::to_owned\(_1: &BorrowedTerm<'_>\) -> OwnedTerm"),
       ("from_owned", r"borrowed::<impl at [^>]*>::from\(_1: &OwnedTerm\) -> BorrowedTerm<'_>")]
IDENTS = ("Pid", "Port", "Reference")


def _rec(name, status, wall, notes=None, failures=None, sample=None):
    return {"harness": name, "desc": sample or name, "status": status, "wall_s": wall, "notes": notes or [], "failures": failures or [],
            "engine": "e2", "nontrivial": 1, "solver_s": 0.0, "vccs": 1, "vccs_remaining": 1}


def run(out):
    t0 = time.time()
    mdir = os.path.join(WORK, "mir")
    os.makedirs(mdir, exist_ok=True)
    path = os.path.join(mdir, "erltf.mir")
    try:
        mir.dump_mir(os.path.join(REPO, "crates", "erltf"), path, os.path.join(TARGET, "mir"))
        text = open(path).read()
    except mir.MirError as e:
        out.append(_rec("c10_conversions_encode", "INCONCLUSIVE", time.time() - t0, notes=["cannot dump MIR: %s" % e]))
        return
    consts = symex.parse_consts(text)
    for short, rx in FNS:
        t1 = time.time()
        fns = mir.parse_functions(text, rx)
        if len(fns) != 1:
            for idn in IDENTS:
                out.append(_rec("c10_conversion_arm__%s_%s" % (short, idn), "INCONCLUSIVE", 0, notes=["function not found in the MIR dump (%d matches)" % len(fns)]))
            continue
        found = {}
        for k in range(0, 24):
            payload = symex.Val("ident", what="input", origin="input", local=True)
            inp = symex.Val("anyvariant", index=k, payload=payload, seen=None)
            ex = symex.Exec(fns[0], consts, {})
            ex.ident_mode = True
            try:
                tree = ex.run({"_1": inp})
            except (symex.Unsupported, mir.MirError, KeyError, IndexError, ValueError) as e:
                if inp.seen in IDENTS:
                    found[inp.seen] = ("unsupported", str(e), k)
                continue
            if inp.seen not in IDENTS:
                continue
            rets = [n.ret for _c, n in tree.entry_succ if n.action == "ret"]
            found[inp.seen] = ("ok", rets, k, payload, len(tree.entry_bad))
        for idn in IDENTS:
            name = "c10_conversion_arm__%s_%s" % (short, idn)
            sample = {"function": fns[0].name, "arm": idn, "query": "the %s arm returns the same variant carrying the input identifier record itself "
                      "(derived Clone), not one rebuilt from its logical fields" % idn}
            if idn not in found:
                out.append(_rec(name, "INCONCLUSIVE", time.time() - t1, notes=["no discriminant value reaches a `%s` arm" % idn], sample=sample))
                continue
            f = found[idn]
            if f[0] == "unsupported":
                out.append(_rec(name, "INCONCLUSIVE", time.time() - t1, notes=["cannot encode the %s arm: %s" % (idn, f[1])], sample=sample))
                continue
            _ok, rets, k, payload, nbad = f
            sample["discriminant"] = k
            good = (len(rets) == 1 and nbad == 0 and rets[0] is not None and rets[0].kind == "variant" and rets[0].variant == idn
                    and len(rets[0].fields) == 1 and rets[0].fields[0] is payload)
            if good:
                out.append(_rec(name, "PASS", time.time() - t1, sample=sample))
            else:
                what = "?"
                if rets and rets[0] is not None and rets[0].kind == "variant":
                    what = "%s(%s)" % (rets[0].variant, ", ".join(getattr(x, "origin", x.kind) for x in rets[0].fields))
                fl = {"kind": "assert", "label": "L:conversion_arm_%s_%s_keeps_the_identifier_record" % (short, idn), "prop": name,
                      "function": fns[0].name, "desc": "%s on a %s returns %s: the preserved LOCAL_EXT bytes are not carried over" % (short, idn, what),
                      "values": [short, idn], "e2": {"conv": short, "ident": idn}}
                ok, rr = replay(short, idn)
                fl["replayed"], fl["replay_result"] = ok, rr
                out.append(_rec(name, "FAIL", time.time() - t1, failures=[fl], sample=sample))
    for r in out:
        if r["harness"].startswith("c10_conversion_arm"):
            log("[C10] %-60s %-12s %6.1fs %s" % (r["harness"], r["status"], r.get("wall_s", 0),
                                              "; ".join(r.get("notes") or []) or ", ".join(x["label"] for x in r.get("failures", []))))


def replay(conv, ident):
    """native: decode a node-local identifier, convert, re-encode, compare bytes (replay_c16 `conv` mode)"""
    import subprocess
    from . import c16_replay
    b = c16_replay._binary()
    if b is None:
        return False, {"dev": (-1, "replay build failed")}
    try:
        p = subprocess.run([b, "conv", conv, ident], stdout=subprocess.PIPE, stderr=subprocess.STDOUT, text=True, timeout=60)
    except subprocess.TimeoutExpired:
        return False, {"dev": (-2, "timeout")}
    return p.returncode == 101, {"dev": (p.returncode, p.stdout[-400:])}
