"""C09 — fragment reassembly returns the original message once, in any arrival order."""
import itertools
from ..e1 import Harness

PROP_ID = "C09"
FEATURE = "c09"
ENGINE = "E1 kani-cbmc"
QUICK_MAX_S = 125
FUNCTIONS = ["edp_client::fragmentation::FragmentAssembler::{new, start_fragment, add_fragment, pending_count}",
             "FragmentedMessage::{new, add_fragment, set_total_fragments, is_complete, reassemble}, FragmentCount::new"]
ASSUMPTIONS = ["tracing callsites stubbed to disabled (log emission only)", "RandomState::new stubbed with fixed keys",
               "Instant::now stubbed to a fixed instant: expiry by wall clock (cleanup_expired) is outside the claim",
               "std::fmt::format stubbed", "arrival orders are enumerated by the generator (all permutations), payload bytes are symbolic, sequence ids concrete except for single-fragment sequences"]
OUTSIDE = ["more than 3 fragments, payloads other than 1 byte per fragment, more than 2 interleaved sequences, expiry, atom-cache prefix data"]
STUBS = ("#[cfg_attr(kani, kani::stub(std::fmt::format, crate::stubs::fmt_format))]\n"
         "#[cfg_attr(kani, kani::stub(std::collections::hash_map::RandomState::new, crate::stubs::random_state_new))]\n"
         "#[cfg_attr(kani, kani::stub(tracing::__macro_support::__is_enabled, crate::stubs::tracing_is_enabled))]\n"
         "#[cfg_attr(kani, kani::stub(tracing_core::callsite::DefaultCallsite::interest, crate::stubs::tracing_interest))]\n"
         "#[cfg_attr(kani, kani::stub(tracing_core::event::Event::dispatch, crate::stubs::tracing_dispatch))]\n"
         "#[cfg_attr(kani, kani::stub(std::time::Instant::now, crate::stubs::instant_now))]\n")


def bounds(tier):
    return {"fragments": "N in {1,2,3}: every arrival permutation; duplicates of every arrival for N=2", "payload": "1 symbolic byte per fragment",
            "sequence ids": "symbolic u64 for single-fragment sequences; concrete ids otherwise (a symbolic HashMap key makes the probe sequence symbolic)", "interleaving": "2 sequences x 2 fragments, continuation before header"}


def fn(name, body):
    return STUBS + "#[cfg_attr(kani, kani::proof)]\npub fn %s() {\n%s\n    vk::reached();\n}\n" % (name, body)


def H(n, d):
    # hashbrown's probe loops end in the first group for these tiny tables; the unwinding assertions prove it
    return Harness(n, d, unwind=5, cap_s=900, mem_gb=8, typed_heap="big",
                   unwindset=[(r"hashbrown::raw::RawTableInner::(find_inner|find_or_find_insert_index_inner|find_insert_index|fix_insert_index)", 2),
                              (r"simd_bitmask_impl", 17), (r"^c09::", 8), (r"sip::Hasher", 3), (r"^memcmp$|^memcpy$", 10)])


def generate(tier, seed):
    src = ["use crate::c09::*;\nuse crate::vk;\n"]
    hs = []
    for N in (1, 2, 3):
        for perm in itertools.permutations(range(N)):
            n = "c09_order__n%d_%s" % (N, "".join(map(str, perm)))
            src.append(fn(n, "    one_sequence::<%d>([%s], 99, %s);" % (N, ", ".join(map(str, perm)), "vk::u64()" if N == 1 else "%du64" % (1000 + N))))
            hs.append(H(n, "%d fragments arriving in protocol positions %s: nothing until the last missing one, then the original bytes" % (N, perm)))
    for perm in itertools.permutations(range(2)):
        for dup in range(2):
            n = "c09_dup__n2_%s_dup%d" % ("".join(map(str, perm)), dup)
            src.append(fn(n, "    one_sequence::<2>([%s], %d, 42u64);" % (", ".join(map(str, perm)), dup)))
            hs.append(H(n, "2 fragments in order %s with arrival %d delivered twice" % (perm, dup)))
    for k in (0, 1):
        n = "c09_two_sequences_%d" % k
        src.append(fn(n, "    two_sequences(%d);" % k))
        hs.append(H(n, "two interleaved sequences with distinct symbolic ids stay isolated (variant %d)" % k))
    src.append(fn("c09_out_of_range_ids", "    out_of_range_ids();"))
    hs.append(H("c09_out_of_range_ids", "fragment id 0 / above the count changes nothing"))
    src.append(fn("c09_early_out_of_range", "    early_out_of_range();"))
    hs.append(H("c09_early_out_of_range", "a continuation with id above the count buffered before the header does not count towards completion"))
    return "\n".join(src), hs
