"""C09 — fragment reassembly returns the original message once, in any arrival order (E2: MIR -> SMT, stateful interpreter).

The MIR of `FragmentAssembler::{start_fragment, add_fragment, pending_count}` and everything they call in fragmentation.rs
(`FragmentedMessage::{new, add_fragment, set_total_fragments, is_complete, reassemble}`, `FragmentCount::*`, the closures) is
executed by mir_smt/heapex.py on *scripts* of API calls whose fragment ids, sequence ids and payload identities are symbolic.
After every call the result is compared by the solver with a reference model of the protocol (the message of N fragments is
complete when the header (id N) and ids N-1..1 have all arrived; it is delivered exactly then, as cache ++ payload(N) ++ .. ++
payload(1); everything else returns nothing)."""
import os
import re
import subprocess
import time

from ..e1 import WORK, REPO, TARGET, log
from mir_smt import mir, symex, heapex

PROP_ID = "C09"
FEATURE = "c09"
ENGINE = "E2 mir-smt (stateful)"
FUNCTIONS = ["edp_client::fragmentation::FragmentAssembler::{start_fragment, add_fragment, pending_count} (MIR of the working tree)",
             "FragmentedMessage::{new, add_fragment, set_total_fragments, is_complete, reassemble} + closures, FragmentCount::{new, get, exceeds_vec_limit}"]
ASSUMPTIONS = [
    "std containers are modelled, not executed: Vec<T> = list with a concrete length per path, HashMap = insertion-ordered association list "
    "(drain order = insertion order), Vec<u8> payload = sequence of opaque chunks, Option/Result = enums with concrete discriminant per path",
    "tracing is disabled (every `trace!` guard is false); the clock is an input: every Instant::now()/elapsed() reads an arbitrary non-decreasing instant",
    "a duplicate of a fragment carries the same bytes as the original; all headers of one message carry the same count, cache data and payload",
    "payload identities are 64-bit tokens (two chunks are the same bytes iff their tokens are equal); each payload is shorter than 2^40 bytes",
    "trusted: nightly rustc's MIR, the interpreter and container models in /verif/mir_smt/heapex.py, z3 4.8.12; every counterexample is replayed "
    "on the real FragmentAssembler (native binary) before it is reported",
]
OUTSIDE = ["messages of more than 3 fragments (quick: 2); more than N+2 calls per script; more than 2 interleaved sequences",
           "fragment counts above 100000 (the pending-map path of FragmentedMessage::new)", "expiry is decided for cleanup_expired itself (Duration modelled as one 64-bit number); that nothing in connection.rs ever calls it is not", "headers whose count differs between duplicates"]
KMAX = {"quick": 1, "thorough": 2}     # extra calls beyond N


def bounds(tier):
    return {"fragments_per_message": "N in 1..3",
            "calls": "every script over {header, continuation} of length N+%d on one sequence (quick: N+1, thorough: N+2); two-sequence interleavings "
                     "(quick 4, thorough all 4-call interleavings of two 2-fragment messages); headers with and without atom-cache data; "
                     "4 expiry scripts ending in cleanup_expired with a symbolic clock" % KMAX[tier],
            "symbolic": "continuation fragment ids (any u64 incl. 0, duplicates, out of range), both sequence ids (any distinct u64), payload/cache tokens",
            "decided_per_path": "Some/None against the reference model's completion, delivered chunk order against cache++p(N)..p(1), pending_count <= live sequences, no panic"}


def generate(tier, seed):
    return "", []


def _rec(name, status, wall, notes=None, failures=None, sample=None, solver_s=0.0, queries=0, paths=0):
    return {"harness": name, "desc": sample or name, "status": status, "wall_s": wall, "notes": notes or [], "failures": failures or [],
            "engine": "e2", "nontrivial": 1, "solver_s": solver_s, "vccs": queries, "vccs_remaining": queries, "sat_calls": queries, "steps": paths}


# ------------------------------------------------------------------------------------------------ loading the code
def load():
    mdir = os.path.join(WORK, "mir")
    os.makedirs(mdir, exist_ok=True)
    path = os.path.join(mdir, "edp_client.mir")
    mir.dump_mir(os.path.join(REPO, "crates", "edp_client"), path, os.path.join(TARGET, "mir"))
    text = open(path).read()
    fns = {f.name: f for f in mir.parse_functions(text, r"^fn fragmentation::")}
    consts = symex.parse_consts(text)
    # impl block start line -> owner type, from the source of the working tree
    src = open(os.path.join(REPO, "crates", "edp_client", "src", "fragmentation.rs")).read().splitlines()
    owner = {}
    for i, ln in enumerate(src, 1):
        m = re.match(r"^impl(?:<.*>)? (?:\w+ for )?(\w+)", ln)
        if m:
            owner[i] = m.group(1)
    table = {}
    for name, f in fns.items():
        m = re.match(r"^fragmentation::<impl at [^:]+:(\d+):\d+: \d+:\d+>::(\w+)$", name)
        if m and int(m.group(1)) in owner:
            table["%s::%s" % (owner[int(m.group(1))], m.group(2))] = f

    def resolver(callee):
        c = re.sub(r"^fragmentation::", "", callee)
        return table.get(c)
    return fns, consts, table, resolver


# ------------------------------------------------------------------------------------------------ scripts and the reference model
def scripts_for(tier):
    out = []
    nmax = 2 if tier == "quick" else 3
    for n in range(1, nmax + 1):
        k = n + KMAX[tier]
        for bits in range(1 << k):
            calls = [("S" if (bits >> i) & 1 else "A", "A") for i in range(k)]
            if not any(c == "S" for c, _ in calls):
                continue    # without a header nothing can complete; covered by the scripts whose header comes last
            out.append(("n%d_%s" % (n, "".join(c for c, _ in calls)), {"A": n}, calls))
    if tier == "quick":      # 3-fragment messages with one extra call (a duplicate header mid-sequence needs N >= 3 to matter)
        for bits in range(1, 1 << 4):
            calls = [("S" if (bits >> i) & 1 else "A", "A") for i in range(4)]
            out.append(("n3_%s" % "".join(c for c, _ in calls), {"A": 3}, calls))
    two = [[("S", "A"), ("S", "B"), ("A", "A"), ("A", "B")], [("A", "A"), ("A", "B"), ("S", "A"), ("S", "B")],
           [("S", "A"), ("A", "B"), ("A", "A"), ("S", "B")], [("A", "B"), ("S", "A"), ("S", "B"), ("A", "A")]]
    for i, calls in enumerate(two):
        out.append(("two_seq_%d" % i, {"A": 2, "B": 2}, calls))
        if tier == "thorough":
            out.append(("two_seq_%d_n21" % i, {"A": 2, "B": 1}, calls))
    # headers without atom-cache data (None)
    out.append(("n2_SA_nocache", {"A": 2}, [("S", "A"), ("A", "A")]))
    out.append(("n1_S_nocache", {"A": 1}, [("S", "A")]))
    if tier == "thorough":
        # every interleaving of 4 calls over two 2-fragment sequences (first call on A, both sequences used)
        import itertools
        alpha = [("S", "A"), ("A", "A"), ("S", "B"), ("A", "B")]
        for rest in itertools.product(alpha, repeat=3):
            for first in (("S", "A"), ("A", "A")):
                calls = [first] + list(rest)
                if not any(x == "B" for _c, x in calls) or calls in two:
                    continue
                if not any(c == "S" for c, _x in calls):
                    continue
                out.append(("two_all_" + "".join("%s%s" % (c, x.lower()) for c, x in calls), {"A": 2, "B": 2}, calls))
    return out


def OR(xs):
    xs = [x for x in xs if x != "false"]
    if any(x == "true" for x in xs):
        return "true"
    return "false" if not xs else (xs[0] if len(xs) == 1 else "(or %s)" % " ".join(xs))


def AND(xs):
    xs = [x for x in xs if x != "true"]
    if any(x == "false" for x in xs):
        return "false"
    return "true" if not xs else (xs[0] if len(xs) == 1 else "(and %s)" % " ".join(xs))


def bv64(k):
    return "(_ bv%d 64)" % k


class Spec:
    """reference model over the script's symbolic inputs (path independent)"""

    def __init__(self, counts, calls, cache=True):
        self.counts, self.calls = counts, calls
        self.entries = {x: [] for x in counts}       # per sequence: [k, f_expr, p_expr, valid_expr]
        self.flip, self.expected, self.ascending, self.assume = [], [], [], []
        for k, (kind, x) in enumerate(calls):
            n = counts[x]
            f = bv64(n) if kind == "S" else "in_f%d" % k
            p = "in_h%s" % x if kind == "S" else "in_p%d" % k
            if kind == "A":
                # a duplicate (same live message, same id) carries the same bytes; an id-N continuation duplicates the header
                for (j, fj, pj, vj, _kd) in self.entries[x]:
                    self.assume.append("(=> (and %s (= %s %s)) (= %s %s))" % (vj, fj, f, pj, p))
                self.assume.append("(=> (= %s %s) (= %s in_h%s))" % (f, bv64(n), p, x))
            ent = self.entries[x] + [[k, f, p, "true", kind]]
            held = [OR([AND([v, "(= %s %s)" % (fj, bv64(i))]) for (_j, fj, _p, v, _kd) in ent]) for i in range(1, n + 1)]
            hdr = OR([v for (_j, _f, _p, v, kd) in ent if kd == "S"])
            flip = AND([hdr] + held)
            self.flip.append(flip)

            def pay(i):
                e = bv64(0)
                for (_j, fj, pj, v, _kd) in reversed(ent):
                    e = "(ite %s %s %s)" % (AND([v, "(= %s %s)" % (fj, bv64(i))]), pj, e)
                return e
            pre = ["in_c%s" % x] if cache else []
            self.expected.append(pre + [pay(i) for i in range(n, 0, -1)])
            self.ascending.append(pre + [pay(i) for i in range(1, n + 1)])
            nf = "(not %s)" % flip if flip not in ("true", "false") else ("false" if flip == "true" else "true")
            self.entries[x] = [[j, fj, pj, AND([v, nf]), kd] for (j, fj, pj, v, kd) in ent]
        self.live = {x: OR([v for (_j, _f, _p, v, _kd) in self.entries[x]]) for x in counts}

    def inputs(self):
        d = {}
        for x in self.counts:
            d["in_s%s" % x] = "(_ BitVec 64)"
            d["in_h%s" % x] = "(_ BitVec 64)"
            d["in_c%s" % x] = "(_ BitVec 64)"
            d["in_lh%s" % x] = "(_ BitVec 64)"
            d["in_lc%s" % x] = "(_ BitVec 64)"
        for k, (kind, x) in enumerate(self.calls):
            if kind == "A":
                d["in_f%d" % k] = "(_ BitVec 64)"
                d["in_p%d" % k] = "(_ BitVec 64)"
                d["in_l%d" % k] = "(_ BitVec 64)"
        return d


def concrete_reference(counts, calls, vals, cache=True):
    """the same reference model on concrete values: list of expected results (None | list of tokens) and the live-sequence count"""
    st = {x: {"hdr": False, "held": {}, "buf": {}, "live": False} for x in counts}
    out = []
    for k, (kind, x) in enumerate(calls):
        n = counts[x]
        s = st[x]
        s["live"] = True
        if kind == "S":
            s["hdr"] = True
            f, p = n, vals["in_h%s" % x]
        else:
            f, p = vals["in_f%d" % k], vals["in_p%d" % k]
        s["buf"].setdefault(f, p)
        if s["hdr"] and all(i in s["buf"] for i in range(1, n + 1)):
            out.append(([vals["in_c%s" % x]] if cache else []) + [s["buf"][i] for i in range(n, 0, -1)])
            st[x] = {"hdr": False, "held": {}, "buf": {}, "live": False}
        else:
            out.append(None)
    return out, sum(1 for x in counts if st[x]["live"])


# ------------------------------------------------------------------------------------------------ one script
def bytes_val(tok, ln):
    return symex.Val("bytes", chunks=[(tok, ln)])


def run_script(name, counts, calls, code, tier):
    fns, consts, table, resolver = code
    t0 = time.time()
    use_cache = not name.endswith("_nocache")
    spec = Spec(counts, calls, cache=use_cache)
    sol = heapex.Solver(timeout_s=120)
    failures, notes = [], []
    npaths = 0
    try:
        sol.declare("hx_probe", "(_ BitVec 64)")
        for n_, s_ in spec.inputs().items():
            sol.declare(n_, s_)
        xs = sorted(counts)
        if len(xs) == 2:
            sol.assume("(not (= in_s%s in_s%s))" % (xs[0], xs[1]))
        for a in spec.assume:
            sol.assume(a)
        for n_ in spec.inputs():
            if n_.startswith("in_l"):
                sol.assume("(bvult %s (_ bv1099511627776 64))" % n_)
        r, _ = sol.check([])
        if r != "sat":
            return _rec("c09_" + name, "VACUOUS", time.time() - t0, notes=["the harness assumptions are %s" % r])
        it = heapex.Interp(fns, consts, sol, resolver, max_alloc=4)
        work = [[]]
        seen_fail = set()
        completed_paths = 0
        while work:
            prefix = work.pop()
            it.reset(prefix)
            npaths += 1
            if npaths > 6000:
                raise symex.Unsupported("more than 6000 paths")
            asm = [symex.Val("struct", name="FragmentAssembler", fields=[symex.Val("map", entries=[]), heapex.OPAQUE("duration")])]
            aref = lambda: symex.Val("ref", lst=asm, idx=0)
            fail = None
            soft = []
            try:
                for k, (kind, x) in enumerate(calls):
                    seq = symex.Val("struct", name="SequenceId", fields=[symex.BV(64, "in_s%s" % x)])
                    if kind == "S":
                        args = [aref(), seq, symex.BV(64, bv64(counts[x])), heapex.SOME(bytes_val("in_c%s" % x, "in_lc%s" % x)) if use_cache else heapex.NONE(),
                                bytes_val("in_h%s" % x, "in_lh%s" % x)]
                        ret = it.call_fn(table["FragmentAssembler::start_fragment"], args)
                    else:
                        args = [aref(), seq, symex.BV(64, "in_f%d" % k), bytes_val("in_p%d" % k, "in_l%d" % k)]
                        ret = it.call_fn(table["FragmentAssembler::add_fragment"], args)
                    if ret.kind != "enum" or ret.ename != "Option":
                        raise symex.Unsupported("call %d returned %r" % (k, ret))
                    flip = spec.flip[k]
                    if ret.idx == 1:
                        r, m = sol.check(it.pc + ["(not %s)" % flip], want_model=sorted(spec.inputs()))
                        if r == "sat":
                            fail = ("L:message_returned_when_the_sequence_is_not_complete", k, m)
                            break
                        if r != "unsat":
                            raise symex.Unsupported("solver %s" % r)
                        res = ret.fields[0]
                        if res.kind != "bytes":
                            raise symex.Unsupported("result is %s" % res.kind)
                        got = [t for (t, _l) in res.chunks]
                        exp, asc = spec.expected[k], spec.ascending[k]
                        if len(got) != len(exp):
                            r, m = sol.check(it.pc, want_model=sorted(spec.inputs()))
                            fail = ("L:reassembled_chunk_count_differs", k, m)
                            break
                        diff = OR(["(not (= %s %s))" % (g, e) for g, e in zip(got, exp)])
                        r, m = sol.check(it.pc + [diff], want_model=sorted(spec.inputs()))
                        if r == "sat":
                            toks = sorted(n_ for n_ in spec.inputs() if re.match(r"in_[hcp]", n_))
                            if len(toks) > 1:    # prefer a model with pairwise different payloads (readable replay); not required
                                r3, m3 = sol.check(it.pc + [diff, "(distinct %s)" % " ".join(toks)], want_model=sorted(spec.inputs()))
                                if r3 == "sat":
                                    m = m3
                            r2, _ = sol.check(it.pc + [OR(["(not (= %s %s))" % (g, e) for g, e in zip(got, asc)])])
                            if r2 == "unsat":
                                # the delivered chunks are exactly the ascending-id concatenation: recorded, and the path goes on so that
                                # everything after this completion is still checked
                                soft.append(("L:reassembled_in_ascending_fragment_id_order_instead_of_protocol_order", k, m))
                                continue
                            fail = ("L:reassembled_bytes_differ_from_the_message", k, m)
                            break
                        if r != "unsat":
                            raise symex.Unsupported("solver %s" % r)
                    else:
                        r, m = sol.check(it.pc + [flip], want_model=sorted(spec.inputs()))
                        if r == "sat":
                            fail = ("L:nothing_returned_when_the_last_missing_fragment_arrives", k, m)
                            break
                        if r != "unsat":
                            raise symex.Unsupported("solver %s" % r)
                if fail is None:
                    cnt = it.call_fn(table["FragmentAssembler::pending_count"], [aref()])
                    c = heapex.lit_int(cnt)
                    live = "(bvadd %s)" % " ".join(["(_ bv0 8)"] + ["(ite %s (_ bv1 8) (_ bv0 8))" % spec.live[x] for x in sorted(counts)])
                    r, m = sol.check(it.pc + ["(bvugt (_ bv%d 8) %s)" % (c, live)], want_model=sorted(spec.inputs()))
                    if r == "sat":
                        fail = ("L:pending_count_exceeds_the_live_sequences", len(calls), m)
                    elif r != "unsat":
                        raise symex.Unsupported("solver %s" % r)
                    completed_paths += 1
            except heapex.Panic as e:
                r, m = sol.check(it.pc, want_model=sorted(spec.inputs()))
                fail = ("L:panics:" + re.sub(r"[^A-Za-z0-9]+", "_", str(e))[:60], -1, m if r == "sat" else None)
            except heapex.Infeasible:
                pass
            work.extend(it.pending)
            for fl in soft + ([fail] if fail else []):
                if fl[0] in seen_fail:
                    continue
                seen_fail.add(fl[0])
                lab, k, m = fl
                vals = {n_: (m or {}).get(n_, 0) for n_ in spec.inputs()}
                ok, rr = replay(counts, calls, vals, lab, use_cache)
                failures.append({"kind": "assert", "label": lab, "prop": "c09_" + name, "function": "FragmentAssembler",
                                 "desc": "script %s counts=%s, at call %d, inputs %s" % (" ".join("%s:%s" % c for c in calls), counts, k,
                                                                                      {a: b for a, b in vals.items() if not a.startswith("in_l")}),
                                 "values": [vals[n_] for n_ in sorted(vals)], "replayed": ok, "replay_result": rr,
                                 "e2": {"counts": counts, "calls": calls, "vals": vals, "label": lab, "cache": use_cache}})
        if completed_paths == 0 and not failures:
            return _rec("c09_" + name, "VACUOUS", time.time() - t0, notes=["no path ran to the end of the script"])
        sample = {"script": " ".join("%s:%s" % c for c in calls), "fragments": counts, "paths": npaths, "paths_to_the_end": completed_paths,
                  "solver_queries": sol.queries, "solver_s": round(sol.seconds, 2), "mir_functions_executed": sorted(x.split("::")[-1] for x in it.calls_seen),
                  "assumptions_used": sorted(it.assumptions_used)}
        return _rec("c09_" + name, "FAIL" if failures else "PASS", time.time() - t0, failures=failures, sample=sample, solver_s=sol.seconds,
                    queries=sol.queries, paths=npaths)
    except symex.Unsupported as e:
        return _rec("c09_" + name, "INCONCLUSIVE", time.time() - t0, notes=["cannot encode: %s" % e], queries=sol.queries, paths=npaths)
    finally:
        sol.close()


# ------------------------------------------------------------------------------------------------ native replay
def replay(counts, calls, vals, label, cache=True):
    """runs the script on the real FragmentAssembler and compares with the concrete reference model"""
    from . import c16_replay
    b = c16_replay._binary()
    if b is None:
        return False, {"dev": (-1, "replay build failed")}
    args = ["frag"]
    for k, (kind, x) in enumerate(calls):
        if kind == "S":
            args.append("S:%d:%d:%s:%016x" % (vals["in_s%s" % x], counts[x], ("%016x" % vals["in_c%s" % x]) if cache else "-", vals["in_h%s" % x]))
        else:
            args.append("A:%d:%d:%016x" % (vals["in_s%s" % x], vals["in_f%d" % k], vals["in_p%d" % k]))
    try:
        p = subprocess.run([b] + args, stdout=subprocess.PIPE, stderr=subprocess.STDOUT, text=True, timeout=60)
    except subprocess.TimeoutExpired:
        return False, {"dev": (-2, "timeout")}
    if p.returncode not in (0,):
        return (p.returncode == 101 and label.startswith("L:panics")), {"dev": (p.returncode, p.stdout[-400:])}
    got, pend = [], None
    for ln in p.stdout.splitlines():
        m = re.match(r"^call \d+: (None|[0-9a-f]*)$", ln)
        if m:
            got.append(None if m.group(1) == "None" else [int(m.group(1)[i:i + 16], 16) for i in range(0, len(m.group(1)), 16)])
        m = re.match(r"^pending_count: (\d+)$", ln)
        if m:
            pend = int(m.group(1))
    exp, live = concrete_reference(counts, calls, vals, cache)
    differs = got != exp or (pend is not None and pend > live)
    return differs, {"dev": (101 if differs else 0, "native %s pending=%s; reference %s live=%s" % (got, pend, exp, live))}


# ------------------------------------------------------------------------------------------------ expiry (clock = symbolic input)
CLOCK_W = 16     # instants and durations are CLOCK_W-bit numbers (the code only subtracts and compares them); every reading is below 2^(CLOCK_W-2)
EXPIRY_SCRIPTS = [("expiry_one", {"A": 2}, [("A", "A")]), ("expiry_two", {"A": 2, "B": 2}, [("A", "A"), ("A", "B")]),
                  ("expiry_refresh", {"A": 3, "B": 2}, [("S", "A"), ("A", "B"), ("A", "A")]),
                  ("expiry_after_completion", {"A": 2, "B": 2}, [("S", "A"), ("A", "B"), ("A", "A")])]


def run_expiry(name, counts, calls, code):
    """calls, then cleanup_expired with every clock reading an arbitrary non-decreasing instant: a sequence is dropped only if more than
    the timeout has passed since before its last fragment, kept only if no more than the timeout had passed when cleanup began"""
    fns, consts, table, resolver = code
    t0 = time.time()
    spec = Spec(counts, calls)
    sol = heapex.Solver(timeout_s=120)
    failures, npaths, done = [], 0, 0
    try:
        sol.declare("hx_probe", "(_ BitVec 64)")
        for n_, s_ in list(spec.inputs().items()) + [("in_t0", "(_ BitVec %d)" % CLOCK_W), ("in_timeout", "(_ BitVec %d)" % CLOCK_W)]:
            sol.declare(n_, s_)
        xs = sorted(counts)
        if len(xs) == 2:
            sol.assume("(not (= in_s%s in_s%s))" % (xs[0], xs[1]))
        for a in spec.assume:
            sol.assume(a)
        sol.assume("(bvult in_t0 (_ bv%d %d))" % (1 << (CLOCK_W - 2), CLOCK_W))
        for n_ in spec.inputs():
            if n_.startswith("in_l"):
                sol.assume("(bvult %s (_ bv1099511627776 64))" % n_)
        it = heapex.Interp(fns, consts, sol, resolver, max_alloc=4)
        work, seen = [[]], set()
        while work:
            prefix = work.pop()
            it.reset(prefix)
            it.clock_on, it.clock_last, it.clock_w = True, "in_t0", CLOCK_W
            npaths += 1
            if npaths > 3000:
                raise symex.Unsupported("more than 3000 paths")
            asm = [symex.Val("struct", name="FragmentAssembler", fields=[symex.Val("map", entries=[]), symex.BV(CLOCK_W, "in_timeout")])]
            aref = lambda: symex.Val("ref", lst=asm, idx=0)
            fail = None
            try:
                lo, hi = {}, {}
                for k, (kind, x) in enumerate(calls):
                    before = it.clock_last
                    seq = symex.Val("struct", name="SequenceId", fields=[symex.BV(64, "in_s%s" % x)])
                    if kind == "S":
                        it.call_fn(table["FragmentAssembler::start_fragment"], [aref(), seq, symex.BV(64, bv64(counts[x])),
                                   heapex.SOME(bytes_val("in_c%s" % x, "in_lc%s" % x)), bytes_val("in_h%s" % x, "in_lh%s" % x)])
                    else:
                        it.call_fn(table["FragmentAssembler::add_fragment"], [aref(), seq, symex.BV(64, "in_f%d" % k), bytes_val("in_p%d" % k, "in_l%d" % k)])
                    lo[x], hi[x] = before, it.clock_last
                keys = lambda: [e[0].fields[0].s for e in asm[0].fields[0].entries]
                p0 = keys()
                t_begin = it.clock_last
                ret = it.call_fn(table["FragmentAssembler::cleanup_expired"], [aref()])
                t_end = it.clock_last
                p1 = keys()
                want = sorted(spec.inputs()) + ["in_t0", "in_timeout"]
                for kx in p0:
                    x = kx[len("in_s"):]
                    if kx not in p1:
                        r, m = sol.check(it.pc + ["(not (bvugt (bvsub %s %s) in_timeout))" % (t_end, lo[x])], want_model=want)
                        if r == "sat":
                            fail = ("L:cleanup_drops_a_sequence_that_has_not_expired", m)
                            break
                    else:
                        r, m = sol.check(it.pc + ["(bvugt (bvsub %s %s) in_timeout)" % (t_begin, hi[x])], want_model=want)
                        if r == "sat":
                            fail = ("L:cleanup_keeps_an_expired_sequence", m)
                            break
                    if r != "unsat":
                        raise symex.Unsupported("solver %s" % r)
                if fail is None and heapex.lit_int(ret) != len(p0) - len(p1):
                    r, m = sol.check(it.pc, want_model=want)
                    fail = ("L:cleanup_returns_a_wrong_count", m)
                if fail is None:
                    cnt = it.call_fn(table["FragmentAssembler::pending_count"], [aref()])
                    if heapex.lit_int(cnt) != len(p1):
                        r, m = sol.check(it.pc, want_model=want)
                        fail = ("L:pending_count_after_cleanup", m)
                done += 1
            except heapex.Panic as e:
                r, m = sol.check(it.pc, want_model=sorted(spec.inputs()))
                fail = ("L:panics:" + re.sub(r"[^A-Za-z0-9]+", "_", str(e))[:60], m if r == "sat" else None)
            except heapex.Infeasible:
                pass
            work.extend(it.pending)
            if fail and fail[0] not in seen:
                seen.add(fail[0])
                lab, m = fail
                ok, rr = replay_expiry(lab)
                failures.append({"kind": "assert", "label": lab, "prop": "c09_" + name, "function": "FragmentAssembler::cleanup_expired",
                                 "desc": "script %s then cleanup_expired; model %s" % (" ".join("%s:%s" % c for c in calls), {a: b for a, b in (m or {}).items() if not a.startswith("in_l")}),
                                 "values": [lab], "replayed": ok, "replay_result": rr, "e2": {"expiry": lab}})
        if done == 0 and not failures:
            return _rec("c09_" + name, "VACUOUS", time.time() - t0, notes=["no path ran to the end of the script"])
        sample = {"script": " ".join("%s:%s" % c for c in calls) + " cleanup_expired", "paths": npaths, "solver_queries": sol.queries, "solver_s": round(sol.seconds, 2),
                  "clock": "every Instant::now()/elapsed() reads a fresh symbolic %d-bit instant >= the previous one; timeout symbolic" % CLOCK_W}
        return _rec("c09_" + name, "FAIL" if failures else "PASS", time.time() - t0, failures=failures, sample=sample, solver_s=sol.seconds, queries=sol.queries, paths=npaths)
    except symex.Unsupported as e:
        return _rec("c09_" + name, "INCONCLUSIVE", time.time() - t0, notes=["cannot encode: %s" % e], queries=sol.queries, paths=npaths)
    finally:
        sol.close()


def replay_expiry(label):
    """native scenarios on the real clock: a fresh sequence must survive cleanup under a long timeout, an old one must be dropped under a short one"""
    from . import c16_replay
    b = c16_replay._binary()
    if b is None:
        return False, {"dev": (-1, "replay build failed")}
    try:
        p = subprocess.run([b, "fragexp"], stdout=subprocess.PIPE, stderr=subprocess.STDOUT, text=True, timeout=60)
    except subprocess.TimeoutExpired:
        return False, {"dev": (-2, "timeout")}
    return p.returncode == 101, {"dev": (p.returncode, p.stdout[-400:])}


def replay_case(case):
    if (case.get("e2") or {}).get("expiry"):
        return replay_expiry(case["e2"]["expiry"])
    e = case.get("e2") or {}
    if not e:
        return None
    calls = [tuple(c) for c in e["calls"]]
    return replay(e["counts"], calls, e["vals"], e["label"], e.get("cache", True))


def extra_checks(tier, seed):
    out = []
    t0 = time.time()
    try:
        code = load()
    except (mir.MirError, OSError) as e:
        return [_rec("c09_encode", "INCONCLUSIVE", time.time() - t0, notes=["cannot dump/parse MIR: %s" % e])]
    need = ["FragmentAssembler::start_fragment", "FragmentAssembler::add_fragment", "FragmentAssembler::pending_count"]
    miss = [n for n in need if n not in code[2]]
    if miss:
        return [_rec("c09_encode", "INCONCLUSIVE", time.time() - t0, notes=["functions not found in the MIR dump: %s" % miss])]
    only = os.environ.get("VERIF_C09_ONLY")
    for name, counts, calls in scripts_for(tier):
        if only and not re.search(only, name):
            continue
        r = run_script(name, counts, calls, code, tier)
        out.append(r)
        log("[C09] %-44s %-12s %6.1fs paths=%s queries=%s %s" % (r["harness"], r["status"], r["wall_s"], r.get("steps"), r.get("vccs"),
                                                              "; ".join(r.get("notes") or []) or ", ".join(x["label"] for x in r.get("failures", []))))
    for name, counts, calls in EXPIRY_SCRIPTS:
        if only and not re.search(only, name):
            continue
        r = run_expiry(name, counts, calls, code)
        out.append(r)
        log("[C09] %-44s %-12s %6.1fs paths=%s queries=%s %s" % (r["harness"], r["status"], r["wall_s"], r.get("steps"), r.get("vccs"),
                                                              "; ".join(r.get("notes") or []) or ", ".join(x["label"] for x in r.get("failures", []))))
    return out
