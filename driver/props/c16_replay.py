"""Native replay of E2 counterexamples for C16 against the real code (hooks: --cfg edp_rs_verif)."""
import os
import subprocess

from ..e1 import VERIF, ENV, sh, REPLAY_TARGET, REPLAY_C16

_built = {}


def _binary():
    if "b" in _built:
        return _built["b"]
    env = dict(ENV)
    env["RUSTFLAGS"] = "--cfg edp_rs_verif"
    p = sh(["cargo", "build", "--offline", "--target-dir", REPLAY_TARGET], cwd=REPLAY_C16, env=env)
    b = os.path.join(REPLAY_TARGET, "debug", "replay_c16")
    _built["b"] = b if p.returncode == 0 and os.path.exists(b) else None
    return _built["b"]


def hooked_order(md, model, tree):
    """thread ids in the order of effective steps whose node has a yield point in the source"""
    order = []
    pcs = {}
    for t in range(md.L + 1):
        for i in range(md.T):
            pcs[(i, t)] = model.get("pc_%d_%d" % (i, t))
    for t in range(md.L):
        i = model.get("sched_%d" % t)
        if i is None:
            continue
        a, b = pcs.get((i, t)), pcs.get((i, t + 1))
        if a is None or b is None or a == b or a < 0:
            continue
        nid = (a % md.N) - 1
        if nid < 0:
            continue
        n = tree.nodes[nid]
        if n.hook is not None:
            order.append(i)
    return order


def replay(kind, T, K, order, start, tree, expect=None):
    b = _binary()
    if b is None:
        return False, {"dev": (-1, "replay build failed")}
    cmd = [b, kind, str(T), str(K), str(start.get("next_id", 1)), str(start.get("next_serial", 0)), str(start.get("creation", 0)),
           ",".join(str(x) for x in order)]
    try:
        p = subprocess.run(cmd, stdout=subprocess.PIPE, stderr=subprocess.STDOUT, text=True, timeout=60)
    except subprocess.TimeoutExpired:
        return False, {"dev": (-2, "timeout")}
    rr = {"dev": (p.returncode, p.stdout[-600:])}
    if expect == "step" and p.returncode == 0:
        # inductive step: rank must advance by one and next_id stay in 1..=2^20
        import re
        m = re.search(r"next_id=(\d+) next_serial=(\d+)", p.stdout)
        if m:
            ni, ns = int(m.group(1)), int(m.group(2))
            r0 = start["next_serial"] * (1 << 20) + start["next_id"] - 1
            r1 = ns * (1 << 20) + ni - 1
            if not (1 <= ni <= (1 << 20)) or (r1 - r0) % (1 << 64) != 1:
                return True, rr
        return False, rr
    return p.returncode in (101, 134), rr


def replay_pair(model, atom, nextid_f, ser_f):
    """two states with different ranks yielding the same (id, serial): run allocate once from each"""
    b = _binary()
    if b is None:
        return False, {"dev": (-1, "replay build failed")}
    outs = []
    for pre in ("", "B"):
        ni, ns = model.get("%sf%d_0" % (pre, nextid_f)), model.get("%sf%d_0" % (pre, ser_f))
        p = subprocess.run([b, "allocate", "1", "1", str(ni), str(ns), "0", ""], stdout=subprocess.PIPE, stderr=subprocess.STDOUT, text=True, timeout=60)
        import re
        m = re.search(r"results \[\((\d+), (\d+), (\d+)\)\]", p.stdout)
        outs.append((m.group(1), m.group(2)) if m else None)
    ok = outs[0] is not None and outs[0] == outs[1]
    return ok, {"dev": (101 if ok else 0, "results %s" % outs)}
