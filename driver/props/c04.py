"""C04 — handshake: connected only after cookie proof; flags are the intersection; layouts."""
import itertools
from ..e1 import Harness

PROP_ID = "C04"
FEATURE = "c04"
ENGINE = "E1 kani-cbmc + E2 mir-smt"
QUICK_MAX_S = 125
FUNCTIONS = ["edp_client::state_machine::HandshakeStateMachine::{begin_connect, prepare_send_name, handle_status, prepare_complement, "
             "handle_challenge, prepare_challenge_reply, handle_challenge_ack, disconnect, state, negotiated_flags}",
             "handshake.rs SendName::encode_old, StatusMessage::decode, Challenge::decode, ChallengeReply::{new,encode}, ChallengeAck::{decode,verify}",
             "E2 (stateful MIR interpreter): digest::compute_digest - the byte string fed to MD5"]
ASSUMPTIONS = ["E1: digest::compute_digest stubbed by an injective model D(challenge, cookie) (MD5 is a trusted dependency); E2 decides separately that "
               "compute_digest feeds MD5 exactly cookie ++ decimal(challenge) for every u32 challenge (hasher = uninterpreted accumulator, `to_string`/`format!` "
               "modelled from their format template)",
               "digest::generate_challenge (wall clock) stubbed to an arbitrary u32",
               "std::fmt::format stubbed (error text only)", "cookie 'ck', local name 'a@b' concrete; peer name length 0 in the challenge"]
OUTSIDE = ["Connection::connect over sockets/EPMD/timeouts, silence", "MD5 itself",
           "node names/cookies other than the concrete ones, symbolic peer name length"]
STUBS = ("#[cfg_attr(kani, kani::stub(std::fmt::format, crate::stubs::fmt_format))]\n"
         "#[cfg_attr(kani, kani::stub(edp_client::digest::compute_digest, crate::stubs::digest_model))]\n"
         "#[cfg_attr(kani, kani::stub(edp_client::digest::generate_challenge, crate::stubs::challenge_model))]\n")
STEP = {"B": "step_begin(&mut r);", "N": "step_send_name(&mut r);", "S": "step_status::<2>(&mut r);", "s": "step_status::<3>(&mut r);",
        "C": "step_complement(&mut r);", "H": "their = step_challenge(&mut r, their);", "R": "step_reply(&mut r, their);",
        "A": "step_ack(&mut r);", "D": "step_disconnect(&mut r);"}
QUICK = ["BNSHRA", "A", "HA", "HDA", "HRA", "HAHA", "HADA", "HHA", "RA", "BNsA", "HRDRA", "NCA", "HAA", "DHA"]


def scripts(tier):
    if tier == "quick":
        return QUICK
    out = list(QUICK)
    for n in (2, 3, 4):
        for t in itertools.product("HRAD", repeat=n):
            s = "".join(t)
            if s not in out:
                out.append(s)
    return out


def bounds(tier):
    return {"scripts": scripts(tier), "per step": "all message bytes symbolic (19-byte challenge with name length 0, 17-byte ack, 3-4 byte status), "
            "both 64-bit flag sets, creation and every generated challenge symbolic"}


def generate(tier, seed):
    src = ["use crate::c04::*;\nuse crate::vk;\n"]
    hs = []
    for s in scripts(tier):
        n = "c04_script__%s" % s.replace("s", "S3")
        body = "    let mut r = new_run();\n    let mut their: u32 = 0;\n" + "\n".join("    " + STEP[c] for c in s) + "\n    vk::leak(r);"
        src.append(STUBS + "#[cfg_attr(kani, kani::proof)]\npub fn %s() {\n%s\n    vk::reached();\n}\n" % (n, body))
        hs.append(Harness(n, "API script %s with every message byte, flag set, creation and challenge symbolic: Connected only after an ack equal to "
                             "'a'++D(our challenge of this handshake); negotiated flags = intersection; emitted layouts" % s,
                          unwind=20, cap_s=600))
    for k, nm in enumerate(["n\\u{153}ud@h\\u{f4}te", "x", "\\u{1F600}@h"]):
        n = "c04_send_name_layout_%d" % k
        src.append(STUBS + "#[cfg_attr(kani, kani::proof)]\npub fn %s() {\n    send_name_layout(\"%s\");\n    vk::reached();\n}\n" % (n, nm))
        hs.append(Harness(n, "send_name layout (len16 counts bytes, 'n', version 5, low 32 flag bits, name bytes) for the non-ASCII/short name #%d, all flags/creation symbolic" % k,
                          unwind=24, cap_s=600))
    return "\n".join(src), hs


def extra_checks(tier, seed):
    from . import c04_digest
    out = []
    c04_digest.run(out)
    return out


def replay_case(case):
    e = case.get("e2") or {}
    if "digest_challenge" in e:
        from . import c04_digest
        return c04_digest.replay(e["digest_challenge"])
    return None
