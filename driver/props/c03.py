"""C03 — every valid external encoding of a value decodes to exactly that value."""
from ..e1 import Harness
from .. import shapes
from . import c01

PROP_ID = "C03"
FEATURE = "c03"
ENGINE = "E1 kani-cbmc"
QUICK_MAX_S = 180   # decode harnesses cost 60-120 s each; 12 run in parallel
FUNCTIONS = ["erltf::decode, erltf::decoder::decode_with_trailing -> parse_term_from_tag and every parse_* incl. legacy tags "
             "(parse_atom_latin1, parse_small_atom_latin1, parse_pid_ext, parse_port_ext, parse_reference_ext, parse_new_reference_ext, "
             "parse_large_tuple, parse_large_big, parse_string_ext, parse_local_ext)", "reference: refetf::emit with the alternative "
             "selected per harness, refetf::accepts/denotes"]
ASSUMPTIONS = c01.ASSUMPTIONS
OUTSIDE = ["FLOAT_EXT text floats (std's dec2flt under CBMC) and top-level COMPRESSED (inflate) — not decided",
           "maps with numerically equal keys 1 / 1.0 (BTreeMap insertion under CBMC) — not decided", "sizes beyond the C01 shapes"]

# (name, shape expr, Alt fields) — each is an *admissible alternative* encoding of the shape's value
ALTS = [
    ("int_small_as_integer_ext", "mk_int_small()", "int: 11"),
    ("int_small_as_small_big1", "mk_int_small()", "int: 12, pad: 1"),
    ("int_small_as_small_big4", "mk_int_small()", "int: 12, pad: 4"),
    ("int_i32_as_small_big4", "mk_int_i32()", "int: 12, pad: 4"),
    ("int_i32_as_large_big4", "mk_int_i32()", "int: 13, pad: 4"),
    ("int_i32_as_small_big9_leading_zeros", "mk_int_i32()", "int: 12, pad: 9"),
    ("int_w8_as_large_big8", "mk_int_wide::<8>()", "int: 13, pad: 8"),
    ("int_w5_as_small_big8_leading_zeros", "mk_int_wide::<5>()", "int: 12, pad: 8"),
    ("big9_as_large_big", "mk_big::<9>()", "int: 13, pad: 9"),
    ("atom2_atom_utf8_ext", "mk_atom::<2>()", "atom: 118"),
    ("atom2_small_atom_ext", "mk_atom::<2>()", "atom: 115"),
    ("atom2_atom_ext", "mk_atom::<2>()", "atom: 100"),
    ("tuple0_large", "mk_tuple(vec![])", "tuple: 105"),
    ("tuple1i_large", "mk_tuple(vec![mk_int_small()])", "tuple: 105, int: 10"),
    ("pid_pid_ext", "mk_pid_c8()", "pid: 103"),
    ("port_new_port_ext", "mk_port_32()", "port: 89"),
    ("port_port_ext", "mk_port_32_c8()", "port: 102"),
    ("ref1_new_reference_ext", "mk_ref_c8::<1>()", "reference: 114"),
    ("ref2_new_reference_ext", "mk_ref_c8::<2>()", "reference: 114"),
    ("pid_atom_ext_node", "mk_pid()", "atom: 100"),
]
MODERN_SHAPES = ["int_small", "int_i32", "float", "atom1", "bin1", "bit1", "nil", "pid", "port", "ref1", "extfun", "tuple0"]


def bounds(tier):
    return {"alternatives": [a[0] for a in ALTS] + ["latin1 atoms via 115/100", "STRING_EXT 0..2 bytes", "LOCAL_EXT around pid/port/ref",
                                                     "trailing byte after: " + ", ".join(MODERN_SHAPES)],
            "values": "all field values / bytes symbolic"}


def fn(name, body):
    return c01.STUBS + "#[cfg_attr(kani, kani::proof)]\npub fn %s() {\n%s\n    vk::reached();\n}\n" % (name, body)


REC = [(r"parse_term_from_tag|parse_term$|refetf::(accepts_at|denotes|emit)", 2)]


def H(n, d):
    return Harness(n, d, unwind=6, unwindset=c01.UWS, cap_s=600, cuts=c01.CUTS_NOZ, recursion=REC)


def generate(tier, seed):
    src = ["use crate::terms::*;\nuse crate::c03::*;\nuse crate::refetf::*;\nuse crate::vk;\n"]
    hs = []
    for name, ex, alt in ALTS:
        n = "c03_alt__%s" % name
        src.append(fn(n, "    let (t, r) = %s;\n    alt_case(&r, &Alt { %s, ..MODERN });\n    vk::leak(t); vk::leak(r);" % (ex, alt)))
        hs.append(H(n, "admissible alternative encoding (%s) of %s decodes to exactly that value" % (alt, ex)))
    for tag in (115, 100):
        n = "c03_latin1_atom_tag%d" % tag
        src.append(fn(n, "    latin1_atom(%d);" % tag))
        hs.append(H(n, "tag %d atom with one Latin-1 byte >= 0x80 decodes to the atom of that code point" % tag))
    for tag in (115, 100):
        n = "c03_latin1_atom2_tag%d" % tag
        src.append(fn(n, "    latin1_atom2(%d);" % tag))
        hs.append(H(n, "tag %d atom with two Latin-1 bytes >= 0x80 (incl. pairs that are well-formed UTF-8) decodes to the atom of those two code points" % tag))
    for k in (0, 1, 2):
        n = "c03_string_ext_%d" % k
        src.append(fn(n, "    string_ext::<%d>();" % k))
        hs.append(H(n, "STRING_EXT with %d bytes decodes to the list of those integers" % k))
    for sh, ex in (("pid", "mk_pid()"), ("port", "mk_port()"), ("ref1", "mk_ref::<1>()")):
        n = "c03_local_ext__%s" % sh
        src.append(fn(n, "    let (t, r) = %s;\n    local_ext(&r);\n    vk::leak(t); vk::leak(r);" % ex))
        hs.append(H(n, "LOCAL_EXT (8 symbolic hash bytes) around a %s decodes to that identifier" % sh))
    for s in MODERN_SHAPES:
        n = "c03_trailing__%s" % s
        mode = {"int_small": "int: 10", "int_i32": "int: 11"}.get(s, "int: 0")
        src.append(fn(n, "    let (t, r) = %s;\n    trailing_case(&r, &Alt { %s, ..MODERN });\n    vk::leak(t); vk::leak(r);" % (c01.expr(s), mode)))
        hs.append(H(n, "a complete %s followed by one more byte: decode reports TrailingData(1); decode_with_trailing returns term + that byte" % s))
    return "\n".join(src), hs
