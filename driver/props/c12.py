"""C12 — term comparison agrees with Erlang's standard term order."""
from ..e1 import Harness
from .. import shapes
from . import c11

PROP_ID = "C12"
FEATURE = "c12"
ENGINE = "E1 kani-cbmc"
FUNCTIONS = c11.FUNCTIONS[:1] + c11.FUNCTIONS[3:5] + ["term.rs term_type_order + numeric helpers",
                                                     "reference: harness/src/terms.rs erl_cmp (written from the OTP reference manual)"]
ASSUMPTIONS = c11.ASSUMPTIONS + [
    "order between two different identifiers / funs is not prescribed by the statement: only Equal <=> same fields is asserted",
]
OUTSIDE = c11.OUTSIDE + ["float x big-integer pairs in the quick tier (8 chained f64 multiply-adds; thorough tier only)"]


def bounds(tier):
    b = c11.bounds(tier)
    b.pop("triples", None)
    return b


def generate(tier, seed):
    L = shapes.LEAVES
    src = ["use crate::terms::*;\nuse crate::c12::*;\nuse crate::vk;\n"]
    hs = []
    for a, b in c11.pair_list(tier):
        for kind, f in (("pair", "agrees"), ("borrowed", "agrees_borrowed")):
            n = "c12_%s__%s__%s" % (kind, a, b)
            body = ("    let (a, ra) = %s;\n    let (b, rb) = %s;\n    %s(&a, &ra, &b, &rb);\n    %s(&b, &rb, &a, &ra);\n"
                    "    vk::leak(a); vk::leak(b); vk::leak(ra); vk::leak(rb);" % (L[a][0], L[b][0], f, f))
            src.append(c11.fn(n, body))
            hs.append(Harness(n, "%s cmp == Erlang term order (both argument orders) on shapes %s x %s" % (
                "OwnedTerm" if kind == "pair" else "BorrowedTerm", a, b),
                unwind=c11.UNW, unwindset=c11.UWS, recursion=c11.rec_for([a, b]), cap_s=c11.CAP, cuts=c11.cuts_for([a, b])))
    return "\n".join(src), hs
