"""C12 — term comparison agrees with Erlang's standard term order."""
from ..e1 import Harness
from .. import shapes
from . import c11

PROP_ID = "C12"
FEATURE = "c12"
ENGINE = "E1 kani-cbmc + E2 mir-smt"
FUNCTIONS = c11.FUNCTIONS[:1] + c11.FUNCTIONS[3:5] + ["term.rs term_type_order + numeric helpers",
                                                     "reference: harness/src/terms.rs erl_cmp (written from the OTP reference manual)"]
ASSUMPTIONS = c11.ASSUMPTIONS + [
    "order between two different identifiers / funs is not prescribed by the statement: only Equal <=> same fields is asserted",
]
OUTSIDE = c11.OUTSIDE + ["float x big-integer pairs in the quick tier (8 chained f64 multiply-adds; thorough tier only)",
                         "E2 part: tuples / lists of up to 4 (thorough 7) *integers* only (no nesting, no other element types); the BorrowedTerm copy of cmp "
                         "is compared natively in the replay only"]


def bounds(tier):
    b = c11.bounds(tier)
    b.pop("triples", None)
    return b


def generate(tier, seed):
    L = shapes.LEAVES
    src = ["use crate::terms::*;\nuse crate::c12::*;\nuse crate::vk;\n"]
    hs = []
    for a, b in shapes.pairs_same_family():
        heavy = "float" in (a, b)
        parts = [("", ["agrees(&a, &ra, &b, &rb);", "agrees(&b, &rb, &a, &ra);", "agrees_borrowed(&a, &ra, &b, &rb);",
                       "agrees_borrowed(&b, &rb, &a, &ra);"])]
        if heavy:   # one comparison per query: f64 arithmetic against the exact integer reference is the expensive kernel
            parts = [("_ab", ["agrees(&a, &ra, &b, &rb);"]), ("_ba", ["agrees(&b, &rb, &a, &ra);"]),
                     ("_borrowed_ab", ["agrees_borrowed(&a, &ra, &b, &rb);"]), ("_borrowed_ba", ["agrees_borrowed(&b, &rb, &a, &ra);"])]
        for suffix, calls in parts:
            n = "c12_pair__%s__%s%s" % (a, b, suffix)
            body = ("    let (a, ra) = %s;\n    let (b, rb) = %s;\n    %s\n"
                    "    vk::leak(a); vk::leak(b); vk::leak(ra); vk::leak(rb);" % (L[a][0], L[b][0], "\n    ".join(calls)))
            src.append(c11.fn(n, body))
            hs.append(Harness(n, "OwnedTerm::cmp / BorrowedTerm::cmp == Erlang term order on shapes %s x %s %s" % (a, b, suffix),
                              unwind=c11.UNW, unwindset=c11.UWS, recursion=c11.rec_for([a, b]), cap_s=(900 if 'tuple2ii' in (a, b) else c11.CAP),
                              cuts=c11.cuts_for([a, b]), typed_heap=c11.has_container([a, b])))
    for a, bs in c11.cross_groups().items():
        n = "c12_cross__%s" % a
        body = "    let (a, ra) = %s;\n" % L[a][0]
        for k, b in enumerate(bs):
            body += ("    let (b%d, r%d) = %s;\n    agrees(&a, &ra, &b%d, &r%d);\n    agrees(&b%d, &r%d, &a, &ra);\n"
                     "    agrees_borrowed(&a, &ra, &b%d, &r%d);\n    vk::leak(b%d); vk::leak(r%d);\n" % (k, k, L[b][0], k, k, k, k, k, k, k, k))
        body += "    vk::leak(a); vk::leak(ra);"
        src.append(c11.fn(n, body))
        hs.append(Harness(n, "type-rank order (number < atom < reference < fun < port < pid < tuple < map < nil < list < bit-string) for %s "
                             "against one representative of every other rank: %s" % (a, bs),
                          unwind=c11.UNW, unwindset=c11.UWS, recursion=c11.rec_for([a] + bs), cap_s=c11.CAP, cuts=c11.cuts_for([a] + bs), typed_heap=c11.has_container([a] + bs)))
    return "\n".join(src), hs


def extra_checks(tier, seed):
    from . import c12_seq
    out = []
    c12_seq.run(tier, out)
    return out


def replay_case(case):
    e = case.get("e2") or {}
    if "seqkind" in e:
        from . import c12_seq
        return c12_seq.replay(e["seqkind"], e["xs"], e["ys"])
    return None
