"""C20 (E2 part): date/time wrappers never fabricate a field — MIR of `from_term` executed symbolically with the map
lookups as environment stubs (any key may be present/absent, any value may be an integer of any i64 value)."""
import os
import re
import subprocess
import time

from ..e1 import WORK, REPO, TARGET, REPLAY_TARGET, log
from mir_smt import mir, symex, bmc
from . import c16_replay

TYPES = [("Date", r"ElixirDate"), ("Time", r"ElixirTime"), ("NaiveDateTime", r"ElixirNaiveDateTime"), ("DateTime", r"ElixirDateTime")]


def _rec(name, status, wall, notes=None, failures=None, sample=None, solver_s=0.0):
    return {"harness": name, "desc": sample or name, "status": status, "wall_s": wall, "notes": notes or [], "failures": failures or [],
            "engine": "e2", "nontrivial": 1, "solver_s": solver_s, "vccs": 1, "vccs_remaining": 1}


def run(out):
    t0 = time.time()
    mdir = os.path.join(WORK, "mir")
    os.makedirs(mdir, exist_ok=True)
    path = os.path.join(mdir, "edp_elixir_terms.mir")
    try:
        mir.dump_mir(os.path.join(REPO, "crates", "edp_elixir_terms"), path, os.path.join(TARGET, "mir"))
        text = open(path).read()
    except mir.MirError as e:
        out.append(_rec("c20_wrappers_encode", "INCONCLUSIVE", time.time() - t0, notes=["cannot dump MIR: %s" % e]))
        return
    consts = symex.parse_consts(text)
    for ty, struct in TYPES:
        t1 = time.time()
        name = "c20_from_term_no_fabrication__%s" % ty
        fns = [f for f in mir.parse_functions(text, r"date_time::<impl at .*>::from_term\(") if ("Option<%s>" % struct) in f.header]
        if len(fns) != 1:
            out.append(_rec(name, "INCONCLUSIVE", 0, notes=["from_term of %s not found in the MIR dump (%d)" % (struct, len(fns))]))
            continue
        ex = symex.Exec(fns[0], consts, {})
        try:
            tree = ex.run()
        except symex.Unsupported as e:
            out.append(_rec(name, "INCONCLUSIVE", time.time() - t1, notes=["cannot encode: %s" % e]))
            continue
        lines = ["(set-logic ALL)"] + ["(declare-const %s %s)" % (n, s) for n, s in sorted(ex.fresh.items())]
        bad, somes, fields_seen = [], 0, set()
        for cond, n in tree.entry_succ:
            v = n.ret
            if v.kind != "opt" or v.some == "false" or v.val.kind != "struct":
                continue
            somes += 1
            checks = []
            for fname, fv in v.val.fields.items():
                src = getattr(fv, "cast_from", None)
                if fv.kind != "bv" or src is None:
                    continue
                while getattr(src, "cast_from", None) is not None:     # provenance chain back to the term's own integer
                    src = src.cast_from
                if src.kind != "bv" or src.w < fv.w:
                    continue
                fields_seen.add(fname)
                ext = "sign_extend" if getattr(fv, "signed", False) else "zero_extend"
                checks.append("(= ((_ %s %d) %s) %s)" % (ext, src.w - fv.w, fv.s, src.s))
            if checks:
                bad.append("(and %s %s (not (and %s)))" % (cond or "true", v.some, " ".join(checks)))
        if not somes or not bad:
            out.append(_rec(name, "VACUOUS", time.time() - t1, notes=["no path returns Some with integer fields (%d Some-paths)" % somes]))
            continue
        # vacuity witness: some path returns Some
        q = "(or false %s)" % " ".join(bad)
        getv = sorted(n for n, s in ex.fresh.items() if s.startswith("(_ BitVec"))
        st, model, dt = bmc.solve(lines, q, getv, timeout_s=300)
        sample = {"function": fns[0].name, "struct": struct, "return_paths": len(tree.nodes), "paths_returning_Some": somes,
                  "narrowed_fields": sorted(fields_seen), "query": "exists map contents: from_term returns Some(x) and a field of x differs from the term's integer",
                  "verdict": st, "solver_s": round(dt, 2)}
        if st == "unsat":
            st2, _m, dt2 = bmc.solve(lines, q, [], solver="cvc5", timeout_s=300)
            sample["cvc5"] = st2
            out.append(_rec(name, "PASS" if st2 not in ("sat", "error") else "INCONCLUSIVE", time.time() - t1, sample=sample, solver_s=dt + dt2,
                            notes=[] if st2 not in ("sat", "error") else ["z3 unsat but cvc5 %s" % st2]))
        elif st == "sat":
            args = []
            for k, v in sorted(model.items()):
                if k.startswith("env_val_"):
                    val = v - (1 << 64) if v >= (1 << 63) else v
                    args.append("%s=%d" % (k[len("env_val_"):], val))
            ok, rr = replay(ty, args)
            f = {"kind": "assert", "label": "L:from_term_fabricates_out_of_range_field", "prop": name, "function": fns[0].name,
                 "desc": "%s::from_term on a struct map with %s returns a value with different fields" % (struct, " ".join(args)),
                 "values": args, "replayed": ok, "replay_result": rr, "e2": {"wrapper": ty, "args": args}}
            out.append(_rec(name, "FAIL", time.time() - t1, failures=[f], sample=sample, solver_s=dt))
        else:
            out.append(_rec(name, "INCONCLUSIVE", time.time() - t1, notes=["solver: %s %s" % (st, str(model)[:200])], sample=sample))
    for r in out:
        if r["harness"].startswith("c20_from_term"):
            log("[C20] %-60s %-12s %6.1fs %s" % (r["harness"], r["status"], r.get("wall_s", 0),
                                              "; ".join(r.get("notes") or []) or ", ".join(x["label"] for x in r.get("failures", []))))


def replay(ty, args):
    b = c16_replay._binary()
    if b is None:
        return False, {"dev": (-1, "replay build failed")}
    try:
        p = subprocess.run([b, "wrapper", ty] + list(args), stdout=subprocess.PIPE, stderr=subprocess.STDOUT, text=True, timeout=60)
    except subprocess.TimeoutExpired:
        return False, {"dev": (-2, "timeout")}
    return p.returncode == 101, {"dev": (p.returncode, p.stdout[-400:])}
