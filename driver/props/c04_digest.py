"""C04 (E2/heapex part): the digest of the handshake is MD5(cookie ++ decimal(challenge)).

Under Kani `compute_digest` is replaced by a model (MD5 and `fmt` are beyond CBMC here), so digest.rs itself was outside C04.  Here
the MIR of `edp_client::digest::compute_digest` is executed with the hasher as an *uninterpreted accumulator*: what is decided is
the byte string fed to MD5 - the cookie followed by the decimal rendering of the challenge, for every u32 challenge - not MD5."""
import os
import re
import subprocess
import time

from ..e1 import WORK, REPO, TARGET, log
from mir_smt import mir, symex, heapex

Val, BV = symex.Val, symex.BV


def _rec(name, status, wall, notes=None, failures=None, sample=None, solver_s=0.0, queries=0, paths=0):
    return {"harness": name, "desc": sample or name, "status": status, "wall_s": wall, "notes": notes or [], "failures": failures or [],
            "engine": "e2", "nontrivial": 1, "solver_s": solver_s, "vccs": queries, "vccs_remaining": queries, "sat_calls": queries, "steps": paths}


def unescape(t):
    out, i = [], 0
    while i < len(t):
        if t[i] == "\\":
            c = t[i + 1]
            if c == "x":
                out.append(int(t[i + 2:i + 4], 16))
                i += 4
                continue
            out.append({"n": 10, "r": 13, "t": 9, "0": 0, "\\": 92, "'": 39, '"': 34}.get(c, ord(c)))
            i += 2
            continue
        out.append(ord(t[i]))
        i += 1
    return out


def stubs():
    def to_string(it, c, a):
        v = it.deref(a[0])
        if v.kind != "bv":
            raise symex.Unsupported("to_string of " + v.kind)
        return Val("bytes", chunks=[("DEC", v)])

    def new_display(it, c, a):
        return Val("fmtarg", v=it.deref(a[0]))

    def arguments_new(it, c, a):
        t = a[0]
        if t.kind != "str":
            raise symex.Unsupported("format template is not a constant")
        args = it.deref(a[1])
        return Val("fmtargs", template=unescape(t.text), args=list(args.items))

    def fmt(it, c, a):
        fa = a[0]
        if fa.kind != "fmtargs":
            raise symex.Unsupported("format of " + fa.kind)
        t, out, k, i = fa.template, [], 0, 0
        while i < len(t):
            b = t[i]
            if b == 0:
                break
            if b == 0xC0:
                v = fa.args[k].v
                k += 1
                if v.kind == "bytes":
                    out.extend(v.chunks)
                elif v.kind == "bv":
                    out.append(("DEC", v))
                else:
                    raise symex.Unsupported("format argument " + v.kind)
                i += 1
            elif b < 0x80:
                out.extend(("LIT", x) for x in t[i + 1:i + 1 + b])
                i += 1 + b
            else:
                raise symex.Unsupported("format placeholder with options (0x%02x)" % b)
        return Val("bytes", chunks=out)

    def ident(it, c, a):
        return a[0]

    def md5_new(it, c, a):
        return Val("bytes", chunks=[])

    def md5_update(it, c, a):
        h, src = it.deref(a[0]), it.deref(a[1])
        if src.kind == "bytes":
            h.chunks.extend(src.chunks)
        elif src.kind == "vec":
            h.chunks.extend(("BYTE", x) for x in src.items)
        else:
            raise symex.Unsupported("hashing of " + src.kind)
        return heapex.OPAQUE("unit")

    def md5_finalize(it, c, a):
        return Val("digest", fed=list(a[0].chunks))
    return [(r"<u32 as ToString>::to_string$", to_string), (r"fmt::rt::Argument::<'_>::new_display::<", new_display),
            (r"Arguments::<'_>::new::<", arguments_new), (r"^format$|alloc::fmt::format$", fmt), (r"must_use::<|String::as_bytes$|as Into<\[u8; 16\]>>::into$", ident),
            (r"as Digest>::new$", md5_new), (r"as Digest>::update::<", md5_update), (r"as Digest>::finalize$", md5_finalize),
            (r"fmt::rt::Argument::<'_>::new_debug::<", lambda it, c, a: heapex.OPAQUE("dbg"))]


def run(out):
    t0 = time.time()
    name = "c04_digest_input_is_cookie_then_decimal_challenge"
    mdir = os.path.join(WORK, "mir")
    os.makedirs(mdir, exist_ok=True)
    path = os.path.join(mdir, "edp_client.mir")
    try:
        mir.dump_mir(os.path.join(REPO, "crates", "edp_client"), path, os.path.join(TARGET, "mir"))
        text = open(path).read()
        fns = {f.name: f for f in mir.parse_functions(text, r"^fn (digest::)?compute_digest\(")}
    except (mir.MirError, OSError) as e:
        out.append(_rec(name, "INCONCLUSIVE", time.time() - t0, notes=["cannot dump/parse MIR: %s" % e]))
        return
    if len(fns) != 1:
        out.append(_rec(name, "INCONCLUSIVE", time.time() - t0, notes=["compute_digest not found in the MIR dump (%d)" % len(fns)]))
        return
    fn = list(fns.values())[0]
    sol = heapex.Solver(timeout_s=60)
    failures, npaths, done = [], 0, 0
    try:
        sol.declare("hx_probe", "(_ BitVec 64)")
        sol.declare("in_ch", "(_ BitVec 32)")
        it = heapex.Interp(fns, symex.parse_consts(text), sol, lambda c: None, max_alloc=16)
        it.user_stubs = stubs()
        work, seen = [[]], set()
        while work:
            prefix = work.pop()
            it.reset(prefix)
            npaths += 1
            if npaths > 200:
                raise symex.Unsupported("more than 200 paths")
            fail = None
            try:
                cookie = Val("bytes", chunks=[("COOKIE", None)])
                d = it.call_fn(fn, [BV(32, "in_ch"), cookie])
                if d.kind != "digest":
                    raise symex.Unsupported("result is %s" % d.kind)
                fed = d.fed
                if not fed or fed[0][0] != "COOKIE":
                    r, m = sol.check(it.pc, want_model=["in_ch"])
                    fail = ("L:digest_input_does_not_start_with_the_cookie", m)
                else:
                    rest = fed[1:]
                    if len(rest) == 1 and rest[0][0] == "DEC" and rest[0][1].s == "in_ch":
                        pass        # the library's own decimal rendering of exactly the challenge
                    elif all(x[0] in ("BYTE", "LIT") for x in rest):
                        k = len(rest)
                        digs = [x[1].s if x[0] == "BYTE" else "(_ bv%d 8)" % x[1] for x in rest]
                        conds = []
                        if k == 0 or k > 10:
                            conds.append("false")
                        else:
                            lo = 0 if k == 1 else 10 ** (k - 1)
                            conds.append("(bvuge in_ch (_ bv%d 32))" % lo)
                            if k < 10:
                                conds.append("(bvult in_ch (_ bv%d 32))" % (10 ** k))
                            for i, dg in enumerate(digs):
                                p = 10 ** (k - 1 - i)
                                conds.append("(= %s (bvadd (_ bv48 8) ((_ extract 7 0) (bvurem (bvudiv in_ch (_ bv%d 32)) (_ bv10 32)))))" % (dg, p))
                        r, m = sol.check(it.pc + ["(not (and true %s))" % " ".join(conds)], want_model=["in_ch"])
                        if r == "sat":
                            fail = ("L:digest_input_is_not_cookie_followed_by_the_decimal_challenge", m)
                        elif r != "unsat":
                            raise symex.Unsupported("solver %s" % r)
                    else:
                        r, m = sol.check(it.pc, want_model=["in_ch"])
                        fail = ("L:digest_input_is_not_cookie_followed_by_the_decimal_challenge", m)
                done += 1
            except heapex.Panic as e:
                r, m = sol.check(it.pc, want_model=["in_ch"])
                fail = ("L:panics:" + re.sub(r"[^A-Za-z0-9]+", "_", str(e))[:60], m if r == "sat" else None)
            except heapex.Infeasible:
                pass
            work.extend(it.pending)
            if fail and fail[0] not in seen:
                seen.add(fail[0])
                lab, m = fail
                ch = (m or {}).get("in_ch", 0)
                ok, rr = replay(ch)
                failures.append({"kind": "assert", "label": lab, "prop": name, "function": "compute_digest", "desc": "challenge %d" % ch, "values": [ch],
                                 "replayed": ok, "replay_result": rr, "e2": {"digest_challenge": ch}})
        if done == 0 and not failures:
            out.append(_rec(name, "VACUOUS", time.time() - t0, notes=["no path ran to the end"]))
        else:
            sample = {"function": fn.name, "paths": npaths, "solver_queries": sol.queries,
                      "query": "exists u32 challenge: the bytes fed to MD5 are not cookie ++ decimal(challenge) (hasher = uninterpreted accumulator)"}
            out.append(_rec(name, "FAIL" if failures else "PASS", time.time() - t0, failures=failures, sample=sample, solver_s=sol.seconds, queries=sol.queries, paths=npaths))
    except symex.Unsupported as e:
        out.append(_rec(name, "INCONCLUSIVE", time.time() - t0, notes=["cannot encode: %s" % e], queries=sol.queries, paths=npaths))
    finally:
        sol.close()
    r = out[-1]
    log("[C04] %-60s %-12s %6.1fs %s" % (r["harness"], r["status"], r["wall_s"], "; ".join(r.get("notes") or []) or ", ".join(x["label"] for x in r.get("failures", []))))


def replay(ch):
    from . import c16_replay
    b = c16_replay._binary()
    if b is None:
        return False, {"dev": (-1, "replay build failed")}
    try:
        p = subprocess.run([b, "digest", str(ch)], stdout=subprocess.PIPE, stderr=subprocess.STDOUT, text=True, timeout=60)
    except subprocess.TimeoutExpired:
        return False, {"dev": (-2, "timeout")}
    return p.returncode == 101, {"dev": (p.returncode, p.stdout[-300:])}
