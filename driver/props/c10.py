"""C10 — identifiers received from a peer are re-emitted byte-for-byte."""
import os
from ..e1 import Harness
from . import c01

PROP_ID = "C10"
FEATURE = "c10"
ENGINE = "E1 kani-cbmc"
QUICK_MAX_S = 200
FUNCTIONS = ["decoder.rs parse_local_ext (capture of the raw bytes)", "encoder.rs encode_pid_impl / encode_port_impl / encode_reference_impl (replay)",
             "derived Clone of ExternalPid/Port/Reference (Bytes), BorrowedTerm::from(&OwnedTerm) and to_owned", "types.rs PartialEq/Eq/Hash/PartialOrd/Ord of ExternalPid / ExternalPort / ExternalReference (plain vs node-local form)"]
ASSUMPTIONS = c01.ASSUMPTIONS + ["the round trip is decided as the chain D (decode keeps bytes) + E (encode replays bytes), not in one query"]
OUTSIDE = ["identifiers nested deeper than a 1-tuple, map keys/values, list tails, fun environments", "sequences of more than one conversion"]
IDS = [("pid", "mk_pid()", "mk_pid_local()"), ("port", "mk_port()", "mk_port_local()"), ("ref", "mk_ref::<1>()", "mk_ref_local()")]
CONV = {0: "bare", 1: "clone", 2: "borrowed_roundtrip", 3: "in_tuple"}


def bounds(tier):
    return {"identifiers": "pid / port / reference (1 word) with all numeric fields, the node byte and the 8 hash bytes symbolic",
            "conversions": list(CONV.values())}


def fn(name, body):
    return c01.STUBS + "#[cfg_attr(kani, kani::proof)]\npub fn %s() {\n%s\n    vk::reached();\n}\n" % (name, body)


def generate(tier, seed):
    src = ["use crate::terms::*;\nuse crate::c10::*;\nuse crate::vk;\n"]
    hs = []
    for nm, plain, local in IDS:
        n = "c10_decode_preserves__%s" % nm
        src.append(fn(n, "    let (t, r) = %s;\n    decode_preserves(&r);\n    vk::leak(t); vk::leak(r);" % plain))
        hs.append(Harness(n, "decode(LOCAL_EXT ++ 8 symbolic hash bytes ++ %s) keeps exactly those bytes on the identifier" % nm,
                          unwind=6, unwindset=c01.UWS + [(r"^c10::", 40)], cap_s=900, cuts=c01.CUTS_NOZ, mem_gb=12,
                          recursion=[(r"parse_term_from_tag|parse_term$|refetf::(accepts_at|denotes|emit)", 2)]))
        for c, cn in CONV.items():
            n = "c10_encode_replays__%s_%s" % (nm, cn)
            src.append(fn(n, "    let (t, r) = %s;\n    vk::leak(r);\n    encode_replays(t, %d);" % (local, c)))
            hs.append(Harness(n, "encode of a node-local %s (%s) emits LOCAL_EXT followed by exactly the preserved bytes" % (nm, cn),
                              unwind=6, unwindset=c01.UWS + [(r"^c10::", 40)], cap_s=900, cuts=c01.CUTS_NOZ, mem_gb=int(os.environ.get('VERIF_X_MEM', 12)), typed_heap=(c == 3 or bool(os.environ.get('VERIF_X_TH'))),
                              recursion=[(r"encode_term_impl|to_owned|BorrowedTerm<'_> as std::convert::From|OwnedTerm as std::clone::Clone", 2 if c == 3 else 1)]))
    for nm, plain, local in IDS:
        for c, cn in ((1, "clone"), (2, "borrowed_roundtrip")):
            n = "c10_conversion_preserves__%s_%s" % (nm, cn)
            src.append(fn(n, "    let (t, r) = %s;\n    vk::leak(r);\n    conversion_preserves(t, %d);" % (local, c)))
            hs.append(Harness(n, "%s of a node-local %s keeps the preserved LOCAL_EXT bytes on the identifier (field level, no encoder in the query)" % (cn, nm),
                              unwind=12, unwindset=c01.UWS + [(r"^c10::", 40), (r"^memcmp$", 18)], cap_s=900, cuts=c01.CUTS_NOZ, mem_gb=12,
                              recursion=[(r"to_owned|BorrowedTerm<'_> as std::convert::From|OwnedTerm as std::clone::Clone|OwnedTerm as std::cmp::PartialEq", 1)]))
    for nm in ("pid", "port", "ref"):
        for form, fn_ in ((0, "plain_vs_local"), (1, "local_vs_local")):
            n = "c10_ident_laws__%s_%s" % (nm, fn_)
            src.append(fn(n, "    %s_laws(%d);" % (nm, form)))
            hs.append(Harness(n, "External%s: ==, cmp, partial_cmp and the hash transcript depend on the logical fields only (%s, all fields and "
                                 "both 8-byte hashes symbolic)" % (nm.capitalize(), fn_.replace("_", " ")),
                              unwind=10, unwindset=[(r"^terms::Rec::|^<terms::Rec as ", 50), (r"^terms::", 12), (r"^memcmp$", 18),
                                                    (r"try_rfold|try_fold|iter_compare", 12)],
                              cap_s=600, mem_gb=10))
    return "\n".join(src), hs


def extra_checks(tier, seed):
    from . import c10_e2
    out = []
    c10_e2.run(out)
    return out


def replay_case(case):
    from . import c10_e2
    e = case.get("e2") or {}
    if not e:
        return None
    return c10_e2.replay(e["conv"], e["ident"])
