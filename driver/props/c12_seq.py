"""C12 (E2/heapex part): tuples and lists of up to 3 integers order as in Erlang.

CBMC runs out of memory on any pair harness with a 2-element container, so `<OwnedTerm as Ord>::cmp` is executed from its MIR by the
stateful interpreter on Tuple(n) vs Tuple(m) and List(n) vs List(m), n, m in 0..3, with every element a symbolic i64: tuples order by
size first and then element-wise, lists element-wise and then by length."""
import os
import re
import subprocess
import time

from ..e1 import WORK, REPO, TARGET, log
from mir_smt import mir, symex, heapex

Val, BV = symex.Val, symex.BV


def _rec(name, status, wall, notes=None, failures=None, sample=None, solver_s=0.0, queries=0, paths=0):
    return {"harness": name, "desc": sample or name, "status": status, "wall_s": wall, "notes": notes or [], "failures": failures or [],
            "engine": "e2", "nontrivial": 1, "solver_s": solver_s, "vccs": queries, "vccs_remaining": queries, "sat_calls": queries, "steps": paths}


def load():
    mdir = os.path.join(WORK, "mir")
    os.makedirs(mdir, exist_ok=True)
    path = os.path.join(mdir, "erltf.mir")
    mir.dump_mir(os.path.join(REPO, "crates", "erltf"), path, os.path.join(TARGET, "mir"))
    text = open(path).read()
    fns = {}
    for f in mir.parse_functions(text, r"^fn (term::<impl at [^>]*>::cmp\(_1: &OwnedTerm, _2: &OwnedTerm\)|term_type_order\(|compare_term_lists\(|term::<impl at [^>]*>::cmp::\{closure)"):
        fns.setdefault(f.name, f)
    src = open(os.path.join(REPO, "crates", "erltf", "src", "term.rs")).read()
    m = re.search(r"pub enum OwnedTerm \{(.*?)\n\}", src, re.S)
    enum = {v: i for i, v in enumerate(re.findall(r"^\s{4}(\w+)\s*[\({,]", m.group(1), re.M))}
    cmpf = [f for n, f in fns.items() if re.match(r"^term::<impl at [^>]*>::cmp$", n)]
    if len(cmpf) != 1:
        raise mir.MirError("expected one <OwnedTerm as Ord>::cmp in the dump, found %d" % len(cmpf))

    def resolver(c):
        c2 = re.sub(r"^term::", "", c)
        if c2 in fns:
            return fns[c2]
        if c == "<OwnedTerm as Ord>::cmp":
            return cmpf[0]
        return None
    return fns, symex.parse_consts(text), resolver, enum, cmpf[0]


def spec_lex(xs, ys):
    """SMT Bools (less, equal) of the element-wise comparison of the common prefix"""
    less, eq = "false", "true"
    for a, b in reversed(list(zip(xs, ys))):
        less = "(or (bvslt %s %s) (and (= %s %s) %s))" % (a, b, a, b, less)
        eq = "(and (= %s %s) %s)" % (a, b, eq)
    return less, eq


def run_pair(kind, n, m, code):
    fns, consts, resolver, enum, cmpf = code
    name = "c12_seq__%s%d_vs_%s%d" % (kind, n, kind, m)
    t0 = time.time()
    sol = heapex.Solver(timeout_s=60)
    failures, npaths, done = [], 0, 0
    xs = ["in_x%d" % i for i in range(n)]
    ys = ["in_y%d" % i for i in range(m)]
    try:
        sol.declare("hx_probe", "(_ BitVec 64)")
        for v in xs + ys:
            sol.declare(v, "(_ BitVec 64)")
        it = heapex.Interp(fns, consts, sol, resolver, max_alloc=8)
        it.enums = {"OwnedTerm": enum}
        # expected ordering as three SMT Bools
        less, eq = spec_lex(xs, ys)
        if kind == "tuple" and n != m:
            exp = {"Less": "true" if n < m else "false", "Equal": "false", "Greater": "true" if n > m else "false"}
        else:
            tail_less = "true" if n < m else "false"
            tail_eq = "true" if n == m else "false"
            exp = {"Less": "(or %s (and %s %s))" % (less, eq, tail_less), "Equal": "(and %s %s)" % (eq, tail_eq)}
            exp["Greater"] = "(not (or %s %s))" % (exp["Less"], exp["Equal"])
        work, seen = [[]], set()
        while work:
            prefix = work.pop()
            it.reset(prefix)
            npaths += 1
            if npaths > 3000:
                raise symex.Unsupported("more than 3000 paths")
            mk = lambda vs: heapex.mk_enum("OwnedTerm", "Tuple" if kind == "tuple" else "List", enum["Tuple" if kind == "tuple" else "List"],
                                           [Val("vec", items=[heapex.mk_enum("OwnedTerm", "Integer", enum["Integer"], [BV(64, v)]) for v in vs])])
            a, b = [mk(xs)], [mk(ys)]
            fail = None
            try:
                r = it.call_fn(cmpf, [Val("ref", lst=a, idx=0), Val("ref", lst=b, idx=0)])
                if r.kind != "enum" or r.ename != "Ordering":
                    raise symex.Unsupported("cmp returned %r" % (r,))
                st, mdl = sol.check(it.pc + ["(not %s)" % exp[r.vname]], want_model=xs + ys)
                if st == "sat":
                    fail = ("L:order_of_%ss_differs_from_erlang" % kind, mdl, r.vname)
                elif st != "unsat":
                    raise symex.Unsupported("solver %s" % st)
                done += 1
            except heapex.Panic as e:
                st, mdl = sol.check(it.pc, want_model=xs + ys)
                fail = ("L:panics:" + re.sub(r"[^A-Za-z0-9]+", "_", str(e))[:60], mdl if st == "sat" else None, "panic")
            except heapex.Infeasible:
                pass
            work.extend(it.pending)
            if fail and fail[0] not in seen:
                seen.add(fail[0])
                lab, mdl, got = fail
                sx = [_s64((mdl or {}).get(v, 0)) for v in xs]
                sy = [_s64((mdl or {}).get(v, 0)) for v in ys]
                ok, rr = replay(kind, sx, sy)
                failures.append({"kind": "assert", "label": lab, "prop": name, "function": "<OwnedTerm as Ord>::cmp",
                                 "desc": "%s%s vs %s%s compares %s" % (kind, sx, kind, sy, got), "values": sx + sy, "replayed": ok, "replay_result": rr,
                                 "e2": {"seqkind": kind, "xs": sx, "ys": sy}})
        if done == 0 and not failures:
            return _rec(name, "VACUOUS", time.time() - t0, notes=["no path ran to the end"])
        sample = {"shape": "%s of %d vs %s of %d integers" % (kind, n, kind, m), "paths": npaths, "solver_queries": sol.queries}
        return _rec(name, "FAIL" if failures else "PASS", time.time() - t0, failures=failures, sample=sample, solver_s=sol.seconds, queries=sol.queries, paths=npaths)
    except symex.Unsupported as e:
        return _rec(name, "INCONCLUSIVE", time.time() - t0, notes=["cannot encode: %s" % e], queries=sol.queries, paths=npaths)
    finally:
        sol.close()


def _s64(v):
    return v - (1 << 64) if v >= (1 << 63) else v


def replay(kind, xs, ys):
    from . import c16_replay
    b = c16_replay._binary()
    if b is None:
        return False, {"dev": (-1, "replay build failed")}
    arg = lambda v: ",".join(str(x) for x in v) if v else "-"
    try:
        p = subprocess.run([b, "cmpseq", kind, arg(xs), arg(ys)], stdout=subprocess.PIPE, stderr=subprocess.STDOUT, text=True, timeout=60)
    except subprocess.TimeoutExpired:
        return False, {"dev": (-2, "timeout")}
    return p.returncode == 101, {"dev": (p.returncode, p.stdout[-300:])}


def run(tier, out):
    t0 = time.time()
    try:
        code = load()
    except (mir.MirError, OSError, AttributeError) as e:
        out.append(_rec("c12_seq_encode", "INCONCLUSIVE", time.time() - t0, notes=["cannot dump/parse MIR: %s" % e]))
        return
    top = 5 if tier == "quick" else 8
    for kind, lo in (("tuple", 0), ("list", 1)):
        for n in range(lo, top):
            for m in range(lo, top):
                r = run_pair(kind, n, m, code)
                out.append(r)
                if r["status"] != "PASS":
                    log("[C12] %-40s %-12s %6.1fs %s" % (r["harness"], r["status"], r["wall_s"], "; ".join(r.get("notes") or []) or ", ".join(x["label"] for x in r.get("failures", []))))
    log("[C12] tuples/lists of integers: %d shape pairs, %.1fs" % (sum(1 for r in out if r["harness"].startswith("c12_seq__")), time.time() - t0))
