"""C02 — decoding untrusted bytes always returns: no panic, abort, overflow or blow-up."""
from ..e1 import Harness
from . import c01

PROP_ID = "C02"
FEATURE = "c02"
ENGINE = "E1 kani-cbmc"
QUICK_MAX_S = 125
FUNCTIONS = ["erltf::decode, decode_borrowed, decoder::decode_with_trailing, decode_with_atom_cache, decoder::decode_fragment_header, "
             "decode_fragment_cont -> every parse_* with a wire-supplied length/arity/count field, owned and zero-copy copies"]
ASSUMPTIONS = c01.ASSUMPTIONS + ["T3: every single allocation request must be <= 64*len(input)+4096 bytes (assertion in the allocator model; "
                                 "the native replay uses a counting global allocator)"]
OUTSIDE = ["free-form byte strings (every tag after every tag) — beyond CBMC on this decoder; the per-tag length-field family is what is decided",
           "stack depth of deeply nested containers (recursion is unbounded in parse_term; not decidable by bounded unrolling)",
           "inflate of COMPRESSED data (miniz_oxide under CBMC)"]
# tag, name, number of symbolic length/field bytes, tail terms
TAGS = [(108, "list", 4, 1), (104, "small_tuple", 1, 1), (105, "large_tuple", 4, 1), (116, "map", 4, 2), (109, "binary", 4, 1),
        (77, "bit_binary", 5, 1), (107, "string", 2, 1), (110, "small_big", 2, 1), (111, "large_big", 5, 1), (118, "atom_utf8", 2, 1),
        (119, "small_atom_utf8", 1, 1), (100, "atom_latin1", 2, 1), (115, "small_atom_latin1", 1, 1), (90, "newer_reference", 2, 1),
        (114, "new_reference", 2, 1), (80, "compressed", 4, 0)]
ENTRY = {0: "decode", 1: "decode_borrowed", 2: "decode_with_trailing", 3: "decode_with_atom_cache"}


def bounds(tier):
    return {"inputs": "[131, TAG, all values of the tag's length/arity/count fields incl. 2^32-1, 0..2 small-integer terms behind it] for tags %s; "
                      "NEW_FUN_EXT with symbolic NumFree; fragment header/continuation on 0..20 symbolic bytes" % [t[1] for t in TAGS],
            "allocation budget": "64*len+4096 bytes per request"}


def fn(name, body):
    return c01.STUBS + "#[cfg_attr(kani, kani::proof)]\npub fn %s() {\n%s\n    vk::reached();\n}\n" % (name, body)


def H(n, d, **kw):
    return Harness(n, d, unwind=6, unwindset=c01.UWS + [(r"^c02::", 40)], cap_s=900, mem_gb=12, alloc_cap=True,
                   cuts=[r"flate2::|miniz_oxide::", r"dec2flt"],
                   recursion=[(r"parse_term_from_tag|parse_term$|parse_term_borrowed", 2)], **kw)


def generate(tier, seed):
    src = ["use crate::c02::*;\nuse crate::vk;\n"]
    hs = []
    entries = [0, 1] if tier == "quick" else [0, 1, 2, 3]
    for tag, name, f, t in TAGS:
        for w in entries:
            if w == 1 and tag in (100, 115, 114, 80):
                pass
            n = "c02_%s__%s" % (ENTRY[w], name)
            src.append(fn(n, "    tag_fields::<%d, %d>(%d, %d);" % (f, t, tag, w)))
            hs.append(H(n, "%s on [131, %d, %d symbolic field bytes, %d small-int terms]: returns, no panic, no request above the budget" % (ENTRY[w], tag, f, t)))
    for w in entries:
        n = "c02_%s__new_fun_numfree" % ENTRY[w]
        src.append(fn(n, "    new_fun_numfree(%d);" % w))
        hs.append(H(n, "%s on a NEW_FUN_EXT with a symbolic 32-bit free-variable count and nothing behind it" % ENTRY[w]))
    for k in (0, 1, 2, 10, 19, 20):
        n = "c02_fragment_entry_%d" % k
        src.append(fn(n, "    fragment_entry::<%d>();" % k))
        hs.append(H(n, "decode_fragment_header / decode_fragment_cont on %d symbolic bytes" % k))
    return "\n".join(src), hs
