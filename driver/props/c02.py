"""C02 — decoding untrusted bytes always returns: no panic, abort, overflow or blow-up."""
from ..e1 import Harness
from . import c01

PROP_ID = "C02"
FEATURE = "c02"
ENGINE = "E1 kani-cbmc + E2 mir-smt"
QUICK_MAX_S = 125
FUNCTIONS = ["erltf::decode, decode_borrowed, decoder::decode_with_trailing, decode_with_atom_cache, decoder::decode_fragment_header, "
             "decode_fragment_cont -> every parse_* with a wire-supplied length/arity/count field, owned and zero-copy copies",
             "E2 (stateful MIR interpreter): parse_list, parse_small_tuple, parse_large_tuple, parse_new_fun_ext, parse_newer_reference, "
             "parse_new_reference_ext, parse_compressed up to their first Vec::with_capacity; 23 leaf parsers of both decoders (binary, bit-binary, "
             "string, bigs, the atom tags, integers, float; owned and zero-copy) for panic freedom"]
ASSUMPTIONS = c01.ASSUMPTIONS + ["T3: every single allocation request must be <= 64*len(input)+4096 bytes (assertion in the allocator model; "
                                 "the native replay uses a counting global allocator)",
                                 "E2 capacity sites: input = slice of symbolic length and unknown content; nom number parsers return arbitrary values; nested "
                                 "parse_term calls fail or succeed with an arbitrary Atom/Integer/Pid/Nil consuming >= 1 byte; decided: the first "
                                 "Vec::with_capacity argument never exceeds both the input length and 65536"]
OUTSIDE = ["free-form byte strings (every tag after every tag) — beyond CBMC on this decoder; the per-tag length-field family is what is decided",
           "stack depth of deeply nested containers (recursion is unbounded in parse_term; not decidable by bounded unrolling)",
           "inflate of COMPRESSED data (miniz_oxide under CBMC)"]
# tag, name, width of the length/arity/count field, extra symbolic bytes after it, tail terms, boundary values of the field
V32 = [0, 1, 2, 255, 65535, 10_000_000, 10_000_001, 100_000_001, 4294967295]
TAGS = [(108, "list_notail", 4, 0, 0, [1, 10_000_000]), (105, "large_tuple_notail", 4, 0, 0, [1, 10_000_000]), (104, "small_tuple_notail", 1, 0, 0, [1, 255]),
        (108, "list", 4, 0, 1, V32), (104, "small_tuple", 1, 0, 1, [0, 1, 2, 255]), (105, "large_tuple", 4, 0, 1, V32), (116, "map", 4, 0, 2, V32),
        (109, "binary", 4, 0, 1, V32), (77, "bit_binary", 4, 1, 1, V32), (107, "string", 2, 0, 1, [0, 1, 2, 65535]),
        (110, "small_big", 1, 1, 1, [0, 1, 2, 255]), (111, "large_big", 4, 1, 1, V32), (118, "atom_utf8", 2, 0, 1, [0, 1, 2, 255, 256, 65535]),
        (119, "small_atom_utf8", 1, 0, 1, [0, 1, 2, 255]), (100, "atom_latin1", 2, 0, 1, [0, 1, 2, 65535]), (115, "small_atom_latin1", 1, 0, 1, [0, 1, 255]),
        (90, "newer_reference", 2, 0, 1, [0, 1, 3, 16384, 65535]), (114, "new_reference", 2, 0, 1, [0, 1, 3, 65535]),
        (80, "compressed", 4, 0, 0, [0, 1, 100_000_000, 100_000_001, 4294967295])]
ENTRY = {0: "decode", 1: "decode_borrowed", 2: "decode_with_trailing", 3: "decode_with_atom_cache"}


def bounds(tier):
    return {"inputs": "[131, TAG, length/arity/count field at each listed boundary value, symbolic bytes behind it] for tags %s; "
                      "NEW_FUN_EXT with boundary NumFree values; fragment header/continuation on 0..20 symbolic bytes" % [(t[1], t[5]) for t in TAGS],
            "allocation budget": "64*len + 1 MiB per request",
            "capacity sites (E2)": "all input lengths below 2^40, all values of every wire field read before the site, every outcome of the nested term parses"}


def fn(name, body):
    return c01.STUBS + "#[cfg_attr(kani, kani::proof)]\npub fn %s() {\n%s\n    vk::reached();\n}\n" % (name, body)


def H(n, d, **kw):
    return Harness(n, d, unwind=6, unwindset=c01.UWS + [(r"^c02::", 40)], cap_s=600, mem_gb=8, alloc_cap=True,
                   cuts=[r"miniz_oxide::inflate::core::|miniz_oxide::inflate::stream::inflate", r"dec2flt"],
                   recursion=[(r"parse_term_from_tag|parse_term$|parse_term_borrowed", 2)], **kw)


def generate(tier, seed):
    src = ["use crate::c02::*;\nuse crate::vk;\n"]
    hs = []
    entries = [0] if tier == "quick" else [0, 1, 2, 3]   # decode_borrowed (1) does not finish under CBMC (see C13); kept in thorough for the record
    for tag, name, w, x, t, vals in TAGS:
        for w_ in entries:
            use = vals if tier == "thorough" else sorted(set([vals[1 if len(vals) > 1 else 0], vals[-1]] + [x for x in vals if x in (10_000_000, 100_000_000, 256, 16384)]))
            for v in use:
                n = "c02_%s__%s_%d" % (ENTRY[w_], name, v)
                src.append(fn(n, "    tag_fields::<%d, %d>(%d, %d, %d, %d);" % (x, t, tag, w, v, w_)))
                hs.append(H(n, "%s on [131, %d, field=%d (%d bytes), %d symbolic bytes, %d small-int terms]: returns, no panic, no request above the budget" % (ENTRY[w_], tag, v, w, x, t)))
    for w_ in entries:
        for v in ((0, 1, 2, 1000000, 4294967295) if tier == "thorough" else (1, 1000000, 4294967295)):
            n = "c02_%s__new_fun_numfree_%d" % (ENTRY[w_], v)
            src.append(fn(n, "    new_fun_numfree(%d, %d);" % (v, w_)))
            hs.append(H(n, "%s on a NEW_FUN_EXT with free-variable count %d and nothing behind it" % (ENTRY[w_], v)))
    for w_ in entries:
        for tag in (90, 114):
            for count, have in ((1, 0), (1, 1), (3, 1), (16383, 1), (16384, 1), (65535, 0)):
                n = "c02_%s__reference%d_words_%d_have%d" % (ENTRY[w_], tag, count, have)
                src.append(fn(n, "    reference_words(%d, %d, %d, %d);" % (tag, count, have, w_)))
                hs.append(H(n, "%s on a reference (tag %d) with a valid node and creation announcing %d id words with %d behind it" % (ENTRY[w_], tag, count, have)))
    for k in (0, 1, 2, 10, 18, 19, 20):
        n = "c02_fragment_entry_%d" % k
        src.append(fn(n, "    fragment_entry::<%d>();" % k))
        hs.append(H(n, "decode_fragment_header / decode_fragment_cont on %d symbolic bytes" % k))
    return "\n".join(src), hs


def extra_checks(tier, seed):
    from . import c02_caps
    out = []
    c02_caps.run(out)
    from . import c02_leaf
    c02_leaf.run(out)
    return out


def replay_case(case):
    e = case.get("e2") or {}
    if "capfn" in e:
        from . import c02_caps
        return c02_caps.replay(e["capfn"], e["in_len"], e["wire"])
    if "leaffn" in e:
        from . import c02_leaf
        return c02_leaf.replay(e["leaffn"], e["in_len"], e["wire"])
    return None
