"""C08 (E2 part): ControlMessage::from_term — the MIR is executed symbolically over an arbitrary input term
(tuple of symbolic length with opaque elements; integer-ness and value of elements 0 and 1 symbolic) and z3
checks every return path against the protocol table."""
import os
import re
import subprocess
import time

from ..e1 import WORK, REPO, TARGET, log
from mir_smt import mir, symex, bmc
from mir_smt.symex import bv
from . import c16_replay


def _rec(name, status, wall, notes=None, failures=None, sample=None, solver_s=0.0):
    return {"harness": name, "desc": sample or name, "status": status, "wall_s": wall, "notes": notes or [], "failures": failures or [],
            "engine": "e2", "nontrivial": 1, "solver_s": solver_s, "vccs": 1, "vccs_remaining": 1}


def tables(text, src):
    """tag byte -> variant (from the MIR of TryFrom<u8>), variant -> repr discriminant (from the enum declaration in the source)"""
    m = re.search(r"^fn control::<impl at [^>]*>::try_from\(_1: u8\).*?^\}", text, re.S | re.M)
    if not m:
        raise symex.Unsupported("TryFrom<u8> for ControlMessageType not found")
    body = m.group(0)
    sw = re.search(r"switchInt\(copy _1\) -> \[(.*?)\];", body).group(1)
    tgt = {}
    for a in sw.split(","):
        k, b = [x.strip() for x in a.split(":")]
        if k != "otherwise":
            tgt[b] = int(k)
    table = []
    for bm in re.finditer(r"^    (bb\d+): \{\n(.*?)^    \}", body, re.S | re.M):
        if bm.group(1) in tgt:
            vm = re.search(r"= ControlMessageType::(\w+);", bm.group(2))
            if vm:
                table.append((tgt[bm.group(1)], vm.group(1)))
    em = re.search(r"pub enum ControlMessageType \{(.*?)\n\}", src, re.S)
    repr_of = {k: int(v) for k, v in re.findall(r"(\w+) = (\d+),", em.group(1))}
    return sorted(table), repr_of


def run(out, TABLE, EXTRA_FIELDS):
    t0 = time.time()
    _TABLE[:] = TABLE
    mdir = os.path.join(WORK, "mir")
    os.makedirs(mdir, exist_ok=True)
    path = os.path.join(mdir, "edp_client.mir")
    name = "c08_from_term_matches_protocol_table"
    try:
        mir.dump_mir(os.path.join(REPO, "crates", "edp_client"), path, os.path.join(TARGET, "mir"))
        text = open(path).read()
        src = open(os.path.join(REPO, "crates", "edp_client", "src", "control.rs")).read()
        fns = mir.parse_functions(text, r"control::<impl at .*>::from_term\(_1: &OwnedTerm\)")
        if len(fns) != 1:
            raise mir.MirError("from_term not found (%d)" % len(fns))
        ex = symex.Exec(fns[0], symex.parse_consts(text), {})
        ex.tag_table, ex.repr_of = tables(text, src)
        pm = re.search(r"from_term::promoted\[0\]: &std::ops::RangeInclusive<i64> = \{.*?RangeInclusive::<i64>::new\(const (-?\d+)_i64, const (-?\d+)_i64\)", text, re.S)
        ex.promoted_range = (int(pm.group(1)), int(pm.group(2))) if pm else (0, 255)
        tree = ex.run()
    except (mir.MirError, symex.Unsupported, AttributeError) as e:
        out.append(_rec(name, "INCONCLUSIVE", time.time() - t0, notes=["cannot encode: %s" % e]))
        return
    lines = ["(set-logic ALL)"] + ["(declare-const %s %s)" % (n, s) for n, s in sorted(ex.fresh.items())]
    for extra in ("env_isint_0", "env_isint_1"):
        if extra not in ex.fresh:
            lines.append("(declare-const %s Bool)" % extra)
    for extra in ("env_val_0", "env_val_1", "env_len"):
        if extra not in ex.fresh:
            lines.append("(declare-const %s (_ BitVec 64))" % extra)
    # ---- specification of the result for an arbitrary input
    head_ok = "(and env_is_tuple (bvugt env_len %s) env_isint_0 (bvsge env_val_0 %s) (bvsle env_val_0 %s))" % (bv(64, 0), bv(64, 0), bv(64, 255))
    bad = []     # (condition under which this return path is WRONG, description)
    nret = 0
    for cond, n in tree.entry_succ:
        v = n.ret
        c = cond or "true"
        nret += 1
        if v.kind == "variant" and v.variant == "Err":
            # an error is right only for bad heads or an UNLINK_ID(_ACK) whose id is not a non-negative integer
            unl = "(and (or (= env_val_0 %s) (= env_val_0 %s)) (= env_len %s) (or (not env_isint_1) (bvslt env_val_1 %s)))" % (bv(64, 35), bv(64, 36), bv(64, 4), bv(64, 0))
            bad.append(("(and %s %s (not %s))" % (c, head_ok, unl), "rejects a tuple headed by an integer 0..255"))
            continue
        if not (v.kind == "variant" and v.variant == "Ok"):
            bad.append((c, "unexpected return value shape %r" % v.kind))
            continue
        msg = v.fields[0]
        if msg.kind != "struct":
            bad.append((c, "Ok value is not a ControlMessage aggregate"))
            continue
        bad.append(("(and %s (not %s))" % (c, head_ok), "accepts a term that is not a tuple headed by an integer 0..255"))
        var = msg.name.split("::")[-1]
        if var == "Generic":
            # must not be one of the protocol's (tag, arity) pairs; message_type = head; fields = elements 1..
            hits = " ".join("(and (= env_val_0 %s) (= env_len %s))" % (bv(64, tag), bv(64, len(f) + 1)) for _v, tag, f in TABLE)
            mt = msg.fields.get("message_type")
            fl = msg.fields.get("fields")
            okf = "true"
            if mt is None or mt.kind != "bv" or fl is None or fl.kind != "vec" or fl.start != 1:
                okf = "false"
            else:
                okf = "(= ((_ zero_extend %d) %s) env_val_0)" % (64 - mt.w, mt.s)
            bad.append(("(and %s (or %s (not %s)))" % (c, hits, okf), "falls back to Generic for a protocol operation, or Generic drops/alters the head or fields"))
            continue
        row = [r for r in TABLE if r[0] == var]
        if not row:
            bad.append((c, "produces a variant %s that is not a protocol operation" % var))
            continue
        _v, tag, fields = row[0]
        conds = ["(= env_val_0 %s)" % bv(64, tag), "(= env_len %s)" % bv(64, len(fields) + 1)]
        for k, f in enumerate(fields):
            fv = msg.fields.get(f)
            if f == "id":
                if fv is None or fv.kind != "bv":
                    conds.append("false")
                else:
                    conds.append("(and env_isint_1 (bvsge env_val_1 %s) (= %s env_val_1))" % (bv(64, 0), fv.s))
            elif fv is None or fv.kind != "elem" or fv.index != k + 1:
                conds.append("false")
        if set(msg.fields) != set(fields):
            conds.append("false")
        bad.append(("(and %s (not (and %s)))" % (c, " ".join(conds)),
                    "%s is produced for a tuple that is not {%d, %s} or with fields dropped/reordered" % (var, tag, ", ".join(fields))))
    for (c, msg) in tree.entry_bad:
        bad.append((c, msg))
    q = "(or false %s)" % " ".join(b[0] for b in bad)
    getv = ["env_len", "env_val_0", "env_val_1"]
    small = ["(assert (bvule env_len %s))" % bv(64, 12)]     # prefer counterexamples that can be replayed as real tuples
    st, model, dt = bmc.solve(lines + small, q, getv, timeout_s=600)
    if st == "unsat":
        small = []
        st, model, dt_ = bmc.solve(lines, q, getv, timeout_s=600)
        dt += dt_
    sample = {"function": fns[0].name, "return_paths": nret, "tag_table_from_mir": ex.tag_table,
              "query": "exists input term: from_term's result differs from the protocol table's (tag, arity, field order), or a tuple headed by an integer "
                       "0..255 is rejected (other than unlink ids), or anything else is accepted, or an index is out of bounds",
              "verdict": st, "solver_s": round(dt, 2)}
    if st == "unsat":
        st2, _m, dt2 = bmc.solve(lines, q, [], solver="cvc5", timeout_s=600)
        sample["cvc5"] = st2
        out.append(_rec(name, "PASS" if st2 not in ("sat", "error") else "INCONCLUSIVE", time.time() - t0, sample=sample, solver_s=dt + dt2,
                        notes=[] if st2 not in ("sat", "error") else ["z3 unsat but cvc5 %s" % st2]))
    elif st == "sat":
        # enumerate distinct (head, length) counterexamples: each is excluded and the query repeated
        fails, excl = [], []
        rounds = 0
        while st == "sat" and rounds < 12:
            rounds += 1
            L = model.get("env_len", 0)
            h = model.get("env_val_0", 0)
            h = h - (1 << 64) if h >= (1 << 63) else h
            e1 = model.get("env_val_1", 0)
            e1 = e1 - (1 << 64) if e1 >= (1 << 63) else e1
            pin = ["(assert (= env_len %s))" % bv(64, L), "(assert (= env_val_0 %s))" % bv(64, h % (1 << 64)), "(assert (= env_val_1 %s))" % bv(64, e1 % (1 << 64))]
            seen = set()
            for cnd, msg in bad:
                s2, _m2, _ = bmc.solve(lines + pin, cnd, [], timeout_s=60)
                if s2 == "sat" and msg not in seen:
                    seen.add(msg)
                    ok, rr = replay(h, L, e1)
                    role = re.sub(r"[^A-Za-z0-9]+", "_", msg)[:50]
                    fails.append({"kind": "assert", "label": "L:from_term:head%d_len%d:%s" % (h, L, role), "prop": name, "function": fns[0].name,
                                  "desc": "from_term on a tuple of %d elements headed by %d (element 1 = %d): %s" % (L, h, e1, msg),
                                  "values": [h, L, e1], "replayed": ok, "replay_result": rr, "e2": {"ctl": [h, L, e1]}})
            excl.append("(assert (not (and (= env_len %s) (= env_val_0 %s))))" % (bv(64, L), bv(64, h % (1 << 64))))
            st, model, dt2 = bmc.solve(lines + excl + small, q, getv, timeout_s=600)
            dt += dt2
            if st == "unsat" and small:
                small = []
                st, model, dt2 = bmc.solve(lines + excl, q, getv, timeout_s=600)
                dt += dt2
        sample["distinct_counterexamples"] = rounds
        sample["verdict_after_excluding_them"] = st
        out.append(_rec(name, "FAIL" if st in ("unsat", "sat") else "INCONCLUSIVE", time.time() - t0, failures=fails, sample=sample, solver_s=dt,
                        notes=[] if st in ("unsat", "sat") else ["solver %s while enumerating counterexamples" % st]))
    else:
        out.append(_rec(name, "INCONCLUSIVE", time.time() - t0, notes=["solver: %s %s" % (st, str(model)[:200])], sample=sample))
    r = out[-1]
    log("[C08] %-60s %-12s %6.1fs %s" % (r["harness"], r["status"], r.get("wall_s", 0),
                                      "; ".join(r.get("notes") or []) or ", ".join(x["label"] for x in r.get("failures", []))))


_TABLE = []


def expectation(head, length, e1):
    if length == 0 or head < 0 or head > 255:
        return "ERR"
    for v, tag, fields in _TABLE:
        if tag == head and len(fields) + 1 == length:
            if fields and fields[0] == "id" and e1 < 0:
                return "ERR"
            return "%s:%s" % (v, ",".join(fields))
    return "GENERIC"


def replay(head, length, e1):
    if length > 64:
        return False, {"dev": (-3, "tuple too long to replay")}
    b = c16_replay._binary()
    if b is None:
        return False, {"dev": (-1, "replay build failed")}
    try:
        p = subprocess.run([b, "ctl", str(head), str(length), str(e1), expectation(head, length, e1)], stdout=subprocess.PIPE, stderr=subprocess.STDOUT, text=True, timeout=60)
    except subprocess.TimeoutExpired:
        return False, {"dev": (-2, "timeout")}
    return p.returncode == 101, {"dev": (p.returncode, p.stdout[-500:])}
