"""C01 — encode/decode round trip preserves the Erlang value of every term."""
from ..e1 import Harness
from .. import shapes

PROP_ID = "C01"
FEATURE = "c01"
ENGINE = "E1 kani-cbmc"
QUICK_MAX_S = 125   # decode harnesses cost 60-120 s each; 12 run in parallel
FUNCTIONS = ["erltf::encode -> encoder.rs encode_term_impl, encode_integer, encode_float, encode_atom_impl, encode_binary, "
             "encode_bit_binary, encode_string, encode_list_impl, encode_tuple_impl, encode_pid_impl, encode_port_impl, "
             "encode_reference_impl, encode_bigint, encode_export_ext_impl, encode_new_fun_ext_impl",
             "erltf::decode -> decoder.rs parse_versioned_term, parse_term_from_tag and the parse_* of every tag the encoder emits",
             "reference: harness/src/refetf.rs accepts()/denotes() written from erl_ext_dist"]
ASSUMPTIONS = ["OwnedTerm::estimated_encoded_size stubbed to 63 (capacity hint only)",
               "RandomState::new stubbed with fixed keys (AtomCache's HashMap; iteration order never observed)",
               "std::fmt::format stubbed to String::new() (error/log text only)",
               "well-formed terms: finite floats, minimal BigInt digits, BitBinary bits 1..=8 with zero padding, ASCII atoms"]
OUTSIDE = ["maps, nested containers, atoms > 2 bytes, binaries > 2 bytes, BigInt > 9 digits, arity-255/256 and 255/256-digit boundaries "
           "(element/byte counts size allocations, which must be concrete and small under CBMC)"]
STUBS = ("#[cfg_attr(kani, kani::stub(std::fmt::format, crate::stubs::fmt_format))]\n"
         "#[cfg_attr(kani, kani::stub(std::collections::hash_map::RandomState::new, crate::stubs::random_state_new))]\n"
         "#[cfg_attr(kani, kani::stub(erltf::OwnedTerm::estimated_encoded_size, crate::stubs::est_size))]\n")

ENC_SHAPES = ["int", "float", "big1", "big3", "big8", "big9", "atom1", "atom2", "bin0", "bin1", "bin2", "str1", "bit1", "bit2",
              "nil", "list0", "pid", "port", "ref1", "ref2", "extfun", "tuple0", "tuple1i", "list1", "imp1", "intfun"]
# decode side needs a concrete encoded length: integers are split into their width classes
DEC_SHAPES = ["int_small", "int_i32", "int_w4", "int_w5", "int_w8", "float", "big1", "big3", "big9", "atom1", "atom2", "bin0", "bin1",
              "bin2", "bit1", "bit2", "nil", "pid", "port", "ref1", "ref2", "extfun", "tuple0", "tuple1i", "list1", "imp1"]
EXTRA = {"int_small": "mk_int_small()", "int_i32": "mk_int_i32()", "int_w4": "mk_int_wide::<4>()", "int_w5": "mk_int_wide::<5>()",
         "int_w8": "mk_int_wide::<8>()"}
UWS = [(r"^terms::|^refetf::|^c01::|^c03::|^c13::|^c15::|^c10::", 70), (r"^memcmp$|^memcpy$", 24), (r"Atom::new", 16), (r"rposition|try_rfold|try_fold", 12),
       (r"nom::number", 10)]
CUTS_NOZ = [r"parse_compressed", r"flate2::|miniz_oxide::", r"parse_old_float", r"dec2flt", r"collections::btree", r"BTreeMap"]


def bounds(tier):
    return {"values": "every scalar field / byte cell symbolic", "encode shapes": ENC_SHAPES, "decode shapes": DEC_SHAPES, "unwind": 6}


def fn(name, body):
    return STUBS + "#[cfg_attr(kani, kani::proof)]\npub fn %s() {\n%s\n    vk::reached();\n}\n" % (name, body)


def expr(s):
    return EXTRA.get(s) or shapes.LEAVES[s][0]


ENC_FN = {"atom": "encode_atom_impl", "int": "encode_integer", "float": "encode_float", "bin": "encode_binary|encode_string",
          "bit": "encode_bit_binary", "list": "encode_list_impl|encode_improper_list_impl", "map": "encode_map_impl",
          "tuple": "encode_tuple_impl", "pid": "encode_pid_impl", "port": "encode_port_impl", "ref": "encode_reference_impl",
          "big": "encode_bigint", "extfun": "encode_export_ext_impl", "intfun": "encode_new_fun_ext_impl"}


def enc_cuts(shape):
    """T2: encoder arms the shape cannot reach (the decoded term's variant is not constant-propagated by CBMC)"""
    need = {"int_small": ["int"], "int_i32": ["int"], "int_w4": ["big", "int"], "int_w5": ["big", "int"], "int_w8": ["big", "int"],
            "float": ["float"], "big1": ["big"], "big3": ["big"], "big9": ["big"], "atom1": ["atom"], "atom2": ["atom"],
            "bin0": ["bin"], "bin1": ["bin"], "bin2": ["bin"], "bit1": ["bit"], "bit2": ["bit"], "nil": [], "pid": ["pid", "atom"],
            "port": ["port", "atom"], "ref1": ["ref", "atom"], "ref2": ["ref", "atom"], "extfun": ["extfun", "atom", "int"],
            "tuple0": ["tuple"], "tuple1i": ["tuple", "int"], "list1": ["list", "int"], "imp1": ["list", "int"]}[shape]
    return [r"encoder::(%s)$" % v for k, v in ENC_FN.items() if k not in need]


# variant the decoder returns for the reference encoding of each shape (asserted by C01 for the owned decoder and by C13 for the zero-copy one)
KIND = {"int_small": 0, "int_i32": 0, "int_w4": 1, "int_w5": 1, "int_w8": 1, "float": 2, "big1": 1, "big3": 1, "big8": 1, "big9": 1, "atom1": 3,
        "atom2": 3, "bin0": 4, "bin1": 4, "bin2": 4, "bit1": 5, "bit2": 5, "nil": 6, "pid": 7, "port": 8, "ref1": 9, "ref2": 9, "extfun": 10,
        "tuple0": 11, "tuple1i": 11, "list1": 12, "imp1": 13}
MODES = {"int_small": (10, 0), "int_i32": (11, 0), "int_w4": (12, 4), "int_w5": (12, 5), "int_w8": (12, 8),
         "big1": (12, 1), "big3": (12, 3), "big8": (12, 8), "big9": (12, 9)}


def generate(tier, seed):
    src = ["use crate::terms::*;\nuse crate::c01::*;\nuse crate::vk;\n"]
    hs = []
    for s in ENC_SHAPES:
        n = "c01_enc__%s" % s
        mode = MODES.get(s, (0, 0))
        src.append(fn(n, "    let (t, r) = %s;\n    enc(&t, &r, %d, %d, %d);\n    vk::leak(t); vk::leak(r);" % (expr(s), mode[0], mode[1], 1 if s.startswith("bit") else 0)))
        cont = s in ("tuple1i", "list1", "imp1", "intfun")
        hs.append(Harness(n, "encode(t) is Ok, accepted by the independent reader as the value t denotes, and byte-identical to the "
                             "reference encoding — shape %s" % s, unwind=6, unwindset=UWS, cap_s=600, cuts=CUTS_NOZ,
                          recursion=[(r"encode_term_impl|refetf::(accepts_at|denotes|emit)", 2 if cont else 1)]))
    for s in DEC_SHAPES:
        mode = MODES.get(s, (0, 0))
        cont = s in ("tuple1i", "list1", "imp1")
        for kind, re in (("dec", "false"), ("rt", "true")):
            n = "c01_%s__%s" % (kind, s)
            src.append(fn(n, "    let (t, r) = %s;\n    dec(&r, %d, %d, %d, %s, %d);\n    vk::leak(t); vk::leak(r);" % (expr(s), mode[0], mode[1], 1 if s.startswith("bit") else 0, re, KIND[s])))
            hs.append(Harness(n, ("decode(reference encoding of r) is Ok and denotes r" + ("; re-encoding it gives the same bytes" if kind == "rt" else "")) + " — shape %s" % s,
                              unwind=6, unwindset=UWS, cap_s=600, cuts=CUTS_NOZ + enc_cuts(s),
                              recursion=[(r"encode_term_impl|parse_term_from_tag|parse_term$|refetf::(accepts_at|denotes|emit)", 2 if cont else 1)]))
    return "\n".join(src), hs
