"""C01 — encode/decode round trip preserves the Erlang value of every term."""
from ..e1 import Harness
from .. import shapes

PROP_ID = "C01"
FEATURE = "c01"
ENGINE = "E1 kani-cbmc"
FUNCTIONS = ["erltf::encode -> encoder.rs encode_term_impl, encode_integer, encode_float, encode_atom_impl, encode_binary, "
             "encode_bit_binary, encode_string, encode_list_impl, encode_tuple_impl, encode_pid_impl, encode_port_impl, "
             "encode_reference_impl, encode_bigint, encode_export_ext_impl, encode_new_fun_ext_impl",
             "erltf::decode -> decoder.rs parse_versioned_term, parse_term_from_tag and the parse_* of every tag the encoder emits",
             "reference: harness/src/refetf.rs accepts()/denotes() written from erl_ext_dist"]
ASSUMPTIONS = ["OwnedTerm::estimated_encoded_size stubbed to 63 (capacity hint only)",
               "RandomState::new stubbed with fixed keys (AtomCache's HashMap; iteration order never observed)",
               "std::fmt::format stubbed to String::new() (error/log text only)",
               "well-formed terms: finite floats, minimal BigInt digits, BitBinary bits 1..=8 with zero padding, ASCII atoms"]
OUTSIDE = ["maps, nested containers, atoms > 2 bytes, binaries > 2 bytes, BigInt > 9 digits, arity-255/256 and 255/256-digit boundaries "
           "(element/byte counts size allocations, which must be concrete and small under CBMC)"]
STUBS = ("#[cfg_attr(kani, kani::stub(std::fmt::format, crate::stubs::fmt_format))]\n"
         "#[cfg_attr(kani, kani::stub(std::collections::hash_map::RandomState::new, crate::stubs::random_state_new))]\n"
         "#[cfg_attr(kani, kani::stub(erltf::OwnedTerm::estimated_encoded_size, crate::stubs::est_size))]\n")

LEAF_SHAPES = ["int", "float", "big1", "big3", "big8", "big9", "atom1", "atom2", "bin0", "bin1", "bin2", "str1", "bit1", "bit2",
               "nil", "list0", "pid", "port", "ref1", "ref2", "extfun", "intfun", "tuple0", "tuple1i", "list1", "imp1"]
UWS = [(r"^terms::|^refetf::|^c01::", 24), (r"^memcmp$|^memcpy$", 24), (r"Atom::new", 16), (r"rposition|try_rfold|try_fold", 12)]
CUTS_NOZ = [r"parse_compressed", r"flate2::|miniz_oxide::", r"parse_old_float", r"dec2flt"]


def bounds(tier):
    return {"values": "every scalar field / byte cell symbolic", "shapes": LEAF_SHAPES, "unwind": 6}


def fn(name, body):
    return STUBS + "#[cfg_attr(kani, kani::proof)]\npub fn %s() {\n%s\n    vk::reached();\n}\n" % (name, body)


def generate(tier, seed):
    L = shapes.LEAVES
    src = ["use crate::terms::*;\nuse crate::c01::*;\nuse crate::vk;\n"]
    hs = []
    for s in LEAF_SHAPES:
        n = "c01_roundtrip__%s" % s
        src.append(fn(n, "    let (t, r) = %s;\n    roundtrip(&t, &r);\n    vk::leak(t); vk::leak(r);" % L[s][0]))
        cont = s in ("tuple1i", "list1", "imp1")
        hs.append(Harness(n, "encode ok; independent reader reads the same value; decode denotes the same value; re-encode gives the "
                             "same bytes — shape %s" % s, unwind=6, unwindset=UWS, cap_s=600, cuts=CUTS_NOZ + [r"collections::btree", r"BTreeMap"],
                          recursion=[(r"encode_term_impl|parse_term_from_tag|parse_term$|refetf::(accepts_at|denotes|emit)", 2 if cont else 1)]))
    return "\n".join(src), hs
