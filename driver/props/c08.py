"""C08 — control messages parse and serialise losslessly and use the protocol's numbering."""
from ..e1 import Harness

PROP_ID = "C08"
FEATURE = "c08"
ENGINE = "E1 kani-cbmc"
FUNCTIONS = ["edp_client::control::ControlMessage::{from_term, to_term, into_term}",
             "ControlMessageType::{from_u8, TryFrom<u8>}", "derived Clone of OwnedTerm on the element vector"]
ASSUMPTIONS = ["std::fmt::format stubbed to String::new() (error message text only)",
               "the protocol table (name, tag, arity, field order) is transcribed from OTP's erl_dist_protocol documentation into driver/props/c08.py"]
OUTSIDE = ["tuple elements other than integers (elements are moved/cloned opaquely by the code under test; non-integer elements only "
           "change drop/clone glue)", "arity > 9"]

# (variant, protocol tag, protocol field order) — from erl_dist_protocol "Protocol between Connected Nodes"
TABLE = [
    ("Link", 1, ["from_pid", "to_pid"]),
    ("Send", 2, ["cookie", "to_pid"]),
    ("Exit", 3, ["from_pid", "to_pid", "reason"]),
    ("Unlink", 4, ["from_pid", "to_pid"]),
    ("NodeLink", 5, []),
    ("RegSend", 6, ["from_pid", "cookie", "to_name"]),
    ("GroupLeader", 7, ["from_pid", "to_pid"]),
    ("Exit2", 8, ["from_pid", "to_pid", "reason"]),
    ("SendTt", 12, ["cookie", "to_pid", "trace_token"]),
    ("ExitTt", 13, ["from_pid", "to_pid", "trace_token", "reason"]),
    ("RegSendTt", 16, ["from_pid", "cookie", "to_name", "trace_token"]),
    ("Exit2Tt", 18, ["from_pid", "to_pid", "trace_token", "reason"]),
    ("MonitorP", 19, ["from_pid", "to_proc", "reference"]),
    ("DemonitorP", 20, ["from_pid", "to_proc", "reference"]),
    ("MonitorPExit", 21, ["from_proc", "to_pid", "reference", "reason"]),
    ("SendSender", 22, ["from_pid", "to_pid"]),
    ("SendSenderTt", 23, ["from_pid", "to_pid", "trace_token"]),
    ("PayloadExit", 24, ["from_pid", "to_pid"]),
    ("PayloadExitTt", 25, ["from_pid", "to_pid", "trace_token"]),
    ("PayloadExit2", 26, ["from_pid", "to_pid"]),
    ("PayloadExit2Tt", 27, ["from_pid", "to_pid", "trace_token"]),
    ("PayloadMonitorPExit", 28, ["from_proc", "to_pid", "reference"]),
    # SPAWN_REQUEST {29, ReqId, From, GroupLeader, {Module, Function, Arity}, OptList}; ArgList is the message payload
    ("SpawnRequest", 29, ["req_id", "from", "group_leader", "mfa", "opt_list"]),
    ("SpawnRequestTt", 30, ["req_id", "from", "group_leader", "mfa", "opt_list", "trace_token"]),
    ("SpawnReply", 31, ["req_id", "to", "flags", "result"]),
    ("SpawnReplyTt", 32, ["req_id", "to", "flags", "result", "trace_token"]),
    ("AliasSend", 33, ["from_pid", "alias"]),
    ("AliasSendTt", 34, ["from_pid", "alias", "trace_token"]),
    ("UnlinkId", 35, ["id", "from_pid", "to_pid"]),
    ("UnlinkIdAck", 36, ["id", "from_pid", "to_pid"]),
]
# fields the library's struct has beyond the protocol's tuple (it cannot be built without them)
EXTRA_FIELDS = {"SpawnRequest": ["arg_list"], "SpawnRequestTt": ["arg_list"]}

STUBS = "#[cfg_attr(kani, kani::stub(std::fmt::format, crate::stubs::fmt_format))]\n"
CUTS = [r"collections::btree", r"BTreeMap", r"InternalFun as std::clone::Clone", r"ExternalReference as std::clone::Clone",
        r"ExternalPid as std::clone::Clone", r"ExternalPort as std::clone::Clone", r"ExternalFun as std::clone::Clone",
        r"BigInt as std::clone::Clone", r"Atom as std::clone::Clone", r"Bytes as std::clone::Clone",
        r"Vec<u8> as std::clone::Clone", r"String as std::clone::Clone", r"Box<erltf::OwnedTerm> as std::clone::Clone",
        r"Box<erltf::types::InternalFun> as std::clone::Clone", r"Vec<erltf::OwnedTerm> as std::clone::Clone",
        r"Arc<str> as std::clone::Clone"]
REC = [(r"OwnedTerm as std::clone::Clone>::clone", 0), (r"Vec<erltf::OwnedTerm> as std::clone::Clone>::clone", 1),
       (r"to_vec|ConvertVec", 1)]


def bounds(tier):
    return {"tags": "every tag 0..=255 (concrete per harness for the 30 protocol tags at their arity; symbolic over the complement and "
                    "over all tags at non-matching arities)", "arity": "1..=%d" % (9 if tier == "thorough" else 6),
            "elements": "symbolic i64 integers", "unlink id": "all i64 (negative must be rejected)"}


def fn(name, body):
    return STUBS + "#[cfg_attr(kani, kani::proof)]\npub fn %s() {\n%s\n    vk::reached();\n}\n" % (name, body)


def H(n, d, **kw):
    return Harness(n, d, unwind=12, cuts=CUTS, recursion=REC, cap_s=300, **kw)


def generate(tier, seed):
    src = ["use crate::c08::*;\nuse crate::vk;\nuse edp_client::control::ControlMessage;\n"]
    hs = []
    # (i) structured tags at the arity the library accepts + generic fallback at other arities
    lib_arity = {}
    for v, tag, fields in TABLE:
        k = len(fields) + len(EXTRA_FIELDS.get(v, []))
        lib_arity[tag] = k
        n = "c08_parse__tag%d_arity%d" % (tag, k)
        src.append(fn(n, "    parse_serialise::<%d>(%d, %s);" % (k, tag, "true" if tag in (35, 36) else "false")))
        hs.append(H(n, "{%d, x1..x%d} (protocol op %s) parses; to_term/into_term give the tuple back" % (tag, k, v)))
    maxk = 9 if tier == "thorough" else 6
    for k in range(0, maxk + 1):
        n = "c08_parse__anytag_arity%d" % k
        # symbolic tag over all 0..=255 except the structured tags of this arity (those have their own harness)
        excl = [t for t, a in lib_arity.items() if a == k]
        cond = " && ".join("tag != %d" % t for t in excl) or "true"
        body = ("    let tag = vk::u8() as i64;\n    vk::assume(%s);\n    parse_serialise::<%d>(tag, tag == 35 || tag == 36);" % (cond, k))
        src.append(fn(n, body))
        hs.append(H(n, "{tag, x1..x%d} for every tag 0..=255 not structured at this arity: parses (Generic fallback) and serialises back" % k))
    src.append(fn("c08_rejects_bad_head", "    rejects_bad_head();"))
    hs.append(H("c08_rejects_bad_head", "non-tuple, empty tuple, non-integer head and head outside 0..=255 are rejected"))
    # (iii) protocol table: constructor -> to_term has the protocol's tag, arity and field order
    for v, tag, fields in TABLE:
        k = len(fields)
        n = "c08_table__%s" % v
        lines = []
        allf = fields + EXTRA_FIELDS.get(v, [])
        for f in allf:
            lines.append("    let x_%s = vk::i64();" % f)
        if v in ("UnlinkId", "UnlinkIdAck"):
            lines.append("    vk::assume(x_id >= 0);")
        if allf:
            ctor = "ControlMessage::%s { %s }" % (v, ", ".join(
                ("%s: x_%s as u64" % (f, f)) if f == "id" else ("%s: i(x_%s)" % (f, f)) for f in allf))
        else:
            ctor = "ControlMessage::%s" % v
        lines.append("    table_row::<%d>(%s, %d, [%s]);" % (k, ctor, tag, ", ".join("x_%s" % f for f in fields)))
        src.append(fn(n, "\n".join(lines)))
        hs.append(H(n, "%s serialises as {%d, %s} (protocol tag, arity %d, field order) and parses back" % (v, tag, ", ".join(fields), k + 1)))
    return "\n".join(src), hs
