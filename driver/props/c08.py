"""C08 — control messages parse and serialise losslessly and use the protocol's numbering."""
from ..e1 import Harness

PROP_ID = "C08"
FEATURE = "c08"
ENGINE = "E1 kani-cbmc + E2 mir-smt"
QUICK_MAX_S = 135
FUNCTIONS = ["edp_client::control::ControlMessage::{from_term, to_term, into_term}",
             "ControlMessageType::{from_u8, TryFrom<u8>}", "derived Clone of OwnedTerm on the element vector"]
ASSUMPTIONS = ["std::fmt::format stubbed to String::new() (error message text only)",
               "the protocol table (name, tag, arity, field order) is transcribed from OTP's erl_dist_protocol documentation into driver/props/c08.py"]
OUTSIDE = ["ControlMessage::from_term (parsing a heap tuple: CBMC cannot keep the element variants constant and does not finish; see DESIGN 9.3)", "tuple elements other than integers (elements are moved/cloned opaquely by the code under test; non-integer elements only "
           "change drop/clone glue)", "arity > 9"]

# (variant, protocol tag, protocol field order) — from erl_dist_protocol "Protocol between Connected Nodes"
TABLE = [
    ("Link", 1, ["from_pid", "to_pid"]),
    ("Send", 2, ["cookie", "to_pid"]),
    ("Exit", 3, ["from_pid", "to_pid", "reason"]),
    ("Unlink", 4, ["from_pid", "to_pid"]),
    ("NodeLink", 5, []),
    ("RegSend", 6, ["from_pid", "cookie", "to_name"]),
    ("GroupLeader", 7, ["from_pid", "to_pid"]),
    ("Exit2", 8, ["from_pid", "to_pid", "reason"]),
    ("SendTt", 12, ["cookie", "to_pid", "trace_token"]),
    ("ExitTt", 13, ["from_pid", "to_pid", "trace_token", "reason"]),
    ("RegSendTt", 16, ["from_pid", "cookie", "to_name", "trace_token"]),
    ("Exit2Tt", 18, ["from_pid", "to_pid", "trace_token", "reason"]),
    ("MonitorP", 19, ["from_pid", "to_proc", "reference"]),
    ("DemonitorP", 20, ["from_pid", "to_proc", "reference"]),
    ("MonitorPExit", 21, ["from_proc", "to_pid", "reference", "reason"]),
    ("SendSender", 22, ["from_pid", "to_pid"]),
    ("SendSenderTt", 23, ["from_pid", "to_pid", "trace_token"]),
    ("PayloadExit", 24, ["from_pid", "to_pid"]),
    ("PayloadExitTt", 25, ["from_pid", "to_pid", "trace_token"]),
    ("PayloadExit2", 26, ["from_pid", "to_pid"]),
    ("PayloadExit2Tt", 27, ["from_pid", "to_pid", "trace_token"]),
    ("PayloadMonitorPExit", 28, ["from_proc", "to_pid", "reference"]),
    # SPAWN_REQUEST {29, ReqId, From, GroupLeader, {Module, Function, Arity}, OptList}; ArgList is the message payload
    ("SpawnRequest", 29, ["req_id", "from", "group_leader", "mfa", "opt_list"]),
    ("SpawnRequestTt", 30, ["req_id", "from", "group_leader", "mfa", "opt_list", "trace_token"]),
    ("SpawnReply", 31, ["req_id", "to", "flags", "result"]),
    ("SpawnReplyTt", 32, ["req_id", "to", "flags", "result", "trace_token"]),
    ("AliasSend", 33, ["from_pid", "alias"]),
    ("AliasSendTt", 34, ["from_pid", "alias", "trace_token"]),
    ("UnlinkId", 35, ["id", "from_pid", "to_pid"]),
    ("UnlinkIdAck", 36, ["id", "from_pid", "to_pid"]),
]
# fields the library's struct has beyond the protocol's tuple (it cannot be built without them)
EXTRA_FIELDS = {"SpawnRequest": ["arg_list"], "SpawnRequestTt": ["arg_list"]}

STUBS = "#[cfg_attr(kani, kani::stub(std::fmt::format, crate::stubs::fmt_format))]\n"
CUTS = [r"collections::btree", r"BTreeMap", r"InternalFun as std::clone::Clone", r"ExternalReference as std::clone::Clone",
        r"ExternalPid as std::clone::Clone", r"ExternalPort as std::clone::Clone", r"ExternalFun as std::clone::Clone",
        r"BigInt as std::clone::Clone", r"Atom as std::clone::Clone", r"Bytes as std::clone::Clone",
        r"Vec<u8> as std::clone::Clone", r"String as std::clone::Clone", r"Box<erltf::OwnedTerm> as std::clone::Clone",
        r"Box<erltf::types::InternalFun> as std::clone::Clone", r"Vec<erltf::OwnedTerm> as std::clone::Clone",
        r"Arc<str> as std::clone::Clone"]
REC = [(r"OwnedTerm as std::clone::Clone>::clone", 0), (r"Vec<erltf::OwnedTerm> as std::clone::Clone>::clone", 1),
       (r"to_vec|ConvertVec", 1)]


def extra_checks(tier, seed):
    from . import c08_e2
    out = []
    c08_e2.run(out, TABLE, EXTRA_FIELDS)
    return out


def replay_case(case):
    from . import c08_e2
    e = case.get("e2") or {}
    if "ctl" in e:
        c08_e2._TABLE[:] = TABLE
        return c08_e2.replay(*e["ctl"])
    return None


def bounds(tier):
    return {"tags": "every tag 0..=255 (concrete per harness for the 30 protocol tags at their arity; symbolic over the complement and "
                    "over all tags at non-matching arities)", "arity": "1..=%d" % (9 if tier == "thorough" else 6),
            "elements": "symbolic i64 integers", "unlink id": "all i64 (negative must be rejected)"}


def fn(name, body):
    return STUBS + "#[cfg_attr(kani, kani::proof)]\npub fn %s() {\n%s\n    vk::reached();\n}\n" % (name, body)


def H(n, d, **kw):
    return Harness(n, d, unwind=12, cuts=CUTS, recursion=REC, cap_s=300, **kw)


def generate(tier, seed):
    src = ["use crate::c08::*;\nuse crate::vk;\nuse crate::vassert;\nuse edp_client::control::{ControlMessage, ControlMessageType};\n"]
    hs = []
    # (1) numbering: every protocol operation has the protocol's tag, in both directions; nothing else is a known tag
    body = []
    for v, tag, _f in TABLE:
        body.append("    vassert!(ControlMessageType::%s as u8 == %d, \"L:tag_of_%s\");" % (v, tag, v))
        body.append("    vassert!(ControlMessageType::from_u8(%d) == Some(ControlMessageType::%s), \"L:from_u8_%d\");" % (tag, v, tag))
    body.append("    let t = vk::u8();")
    body.append("    vk::assume(%s);" % " && ".join("t != %d" % tag for _v, tag, _f in TABLE))
    body.append("    vassert!(ControlMessageType::from_u8(t).is_none(), \"L:only_protocol_tags_are_structured\");")
    body.append("    let t2 = vk::u8();\n    if let Some(k) = ControlMessageType::from_u8(t2) { vassert!(k.as_u8() == t2, \"L:as_u8_inverts_from_u8\"); }")
    src.append(fn("c08_numbering", "\n".join(body)))
    hs.append(Harness("c08_numbering", "ControlMessageType numbering equals the protocol table (LINK 1 ... SPAWN_REPLY_TT 32, ALIAS_SEND 33, "
                      "ALIAS_SEND_TT 34, UNLINK_ID 35, UNLINK_ID_ACK 36) in both directions; every other byte is not a structured tag",
                      unwind=4, cap_s=300))
    # (2) serialisers: tag, arity and field order of every structured variant (fields: symbolic integers, pinned)
    for v, tag, fields in TABLE:
        k = len(fields)
        n = "c08_table__%s" % v
        lines = []
        allf = fields + EXTRA_FIELDS.get(v, [])
        for f in allf:
            lines.append("    let x_%s = vk::i64();" % f)
        # unlink ids range over all of u64 (x_id as u64): ids above i64::MAX are part of the quantifier
        if allf:
            ctor = "ControlMessage::%s { %s }" % (v, ", ".join(
                ("%s: x_%s as u64" % (f, f)) if f == "id" else ("%s: i(x_%s)" % (f, f)) for f in allf))
            pins = "    if let ControlMessage::%s { %s } = &mut m { %s }" % (
                v, ", ".join(f for f in allf), " ".join("pin_int(%s);" % f for f in allf if f != "id"))
            pins = pins.replace("{ id,", "{ id: _,")
        else:
            ctor = "ControlMessage::%s" % v
            pins = ""
        lines.append("    let mut m = %s;" % ctor)
        if pins:
            lines.append(pins)
        if v in ("UnlinkId", "UnlinkIdAck"):
            lines.append("    unlink_id_value_kept(&m, x_id);")
        lines.append("    serialises_as::<%d>(m, %d, [%s]);" % (k, tag, ", ".join("x_%s" % f for f in fields)))
        src.append(fn(n, "\n".join(lines)))
        hs.append(H(n, "%s serialises (to_term and into_term) as {%d, %s}: protocol tag, arity %d, field order" % (v, tag, ", ".join(fields), k + 1)))
    return "\n".join(src), hs
