"""C13 (leaf-tag clause) — the zero-copy decoder agrees with the owned decoder (E2: MIR -> SMT, stateful interpreter).

CBMC exhausts memory on `decode_borrowed` even for 3-byte inputs (driver/props/c13_e1_experiment.py keeps those harnesses, none of
which finishes), so only the leaf tags are decided, by executing both copies of each leaf parser from the MIR on the same abstract
input (driver/props/c13_leaf.py)."""
from . import c13_leaf

PROP_ID = "C13"
FEATURE = "c13"
ENGINE = "E2 mir-smt (stateful)"
FUNCTIONS = ["erltf::decoder::parse_X and parse_X_borrowed for X in %s (MIR of the working tree)" % ", ".join(p.replace("parse_", "") for p in c13_leaf.PAIRS)]
ASSUMPTIONS = [
    "the input is a slice of symbolic length whose content is unknown except for the fields the parsers read: a value read at a given offset is the "
    "same symbol in both runs; UTF-8 validity and ASCII-ness of the payload are one shared Boolean each",
    "nom's be_u*/be_i32/be_f64/take fail exactly when too few bytes remain; per-byte iterator chains over the payload are not executed",
    "trusted: nightly rustc's MIR, /verif/mir_smt/heapex.py, z3; counterexamples are replayed natively: both decoders on every prefix of a crafted input",
]
OUTSIDE = ["container tags (tuples, lists, maps, funs), identifiers, LOCAL_EXT, COMPRESSED, FLOAT_EXT: the recursive parse_term / parse_term_borrowed pair is not "
           "executed", "equality of the decoded *values* beyond acceptance and the sign handed to BigInt::new (payload bytes are not modelled)",
           "BorrowedTerm::to_owned beyond Nil / Integer / lists and tuples of up to 2 integers (one nesting level)", "the byte offset reported on rejection (ParsingContext)"]


def bounds(tier):
    return {"inputs": "every input length below 2^40, every value of every field read, both outcomes of UTF-8 validation",
            "decided": "for each of the %d leaf tags: no pair of paths (owned, zero-copy) with different outcomes (accept / reject / panic) is jointly "
                       "satisfiable; on jointly accepting paths the sign passed to BigInt::new is the same" % len(c13_leaf.PAIRS)}


def generate(tier, seed):
    return "", []


def extra_checks(tier, seed):
    out = []
    c13_leaf.run(out)
    c13_leaf.run_to_owned(out)
    return out


def replay_case(case):
    e = case.get("e2") or {}
    if "agree" in e:
        return c13_leaf.replay(e["agree"], e["in_len"], e["wire"])
    if "to_owned_shape" in e:
        return c13_leaf.replay_to_owned(e["to_owned_shape"])
    return None
