"""C14 (writer clause) — a message encoded with a distribution header is read by an independent implementation of the header
layout as the same atoms (E2: MIR -> SMT, stateful interpreter).

The MIR of `encode_with_dist_header_multi`, `collect_atoms`, `encode_term_with_cache`/`encode_term_impl` (atom arm) and
`encode_atom_impl` is executed by mir_smt/heapex.py on 1..3 atom terms whose names are opaque byte strings with *symbolic
lengths* and symbolic identities (two terms may be the same atom).  The produced buffer (single bytes = 8-bit expressions,
atom texts = opaque chunks) is then read by a reference reader written from the OTP documentation of DIST_HEADER."""
import os
import re
import subprocess
import time

from ..e1 import WORK, REPO, TARGET, log
from mir_smt import mir, symex, heapex

PROP_ID = "C14"
FEATURE = "c14"
ENGINE = "E2 mir-smt (stateful)"
FUNCTIONS = ["erltf::encoder::encode_with_dist_header_multi (+ closures), collect_atoms, encode_term_with_cache, encode_term_impl (Atom arm), encode_atom_impl "
             "(MIR of the working tree)"]
ASSUMPTIONS = [
    "std containers are modelled: HashSet/HashMap = insertion-ordered association lists (any iteration order is a legal header: the oracle reads the "
    "order back from the output), BytesMut = list of 8-bit expressions and opaque chunks, Vec = list",
    "atom names are opaque chunks (identity token, symbolic byte length below 131072); equal tokens have equal lengths; estimated_encoded_size is opaque "
    "(it only sizes the buffer)",
    "trusted: nightly rustc's MIR, the interpreter and container models in /verif/mir_smt/heapex.py, z3; every counterexample is replayed natively: "
    "the real encoder's bytes are read by an independent reader in the replay binary",
]
OUTSIDE = ["the header *reader* (parse_dist_header_with_cache is built on nom combinators, not modelled) and therefore the library's own round trip and the "
           "atom cache across messages", "terms other than atoms (and therefore atoms nested in other terms)", "more than 3 terms / 3 distinct atoms, the 255-atom limit",
           "atom names of 131072 bytes or more"]
ATOM_CACHE_REF = 82


def bounds(tier):
    return {"terms": "1..3 atom terms (control + payload + one more), each atom's identity and byte length (0..131071) symbolic; any of them may coincide",
            "decided": "an independent reader of the DIST_HEADER layout (flag nibbles, long-atom bit in the nibble after the last reference, 1- or 2-byte "
                       "lengths, internal segment indices) reads back every atom text and resolves every ATOM_CACHE_REF of the terms to the atom that was "
                       "encoded; no panic"}


def generate(tier, seed):
    return "", []


def _rec(name, status, wall, notes=None, failures=None, sample=None, solver_s=0.0, queries=0, paths=0):
    return {"harness": name, "desc": sample or name, "status": status, "wall_s": wall, "notes": notes or [], "failures": failures or [],
            "engine": "e2", "nontrivial": 1, "solver_s": solver_s, "vccs": queries, "vccs_remaining": queries, "sat_calls": queries, "steps": paths}


def load():
    mdir = os.path.join(WORK, "mir")
    os.makedirs(mdir, exist_ok=True)
    path = os.path.join(mdir, "erltf.mir")
    mir.dump_mir(os.path.join(REPO, "crates", "erltf"), path, os.path.join(TARGET, "mir"))
    text = open(path).read()
    want = r"^fn (encode_with_dist_header_multi|collect_atoms|encode_term_with_cache|encode_term_impl|encode_atom_impl|encode_term|encode_tuple_impl)\b"
    fns = {f.name: f for f in mir.parse_functions(text, want)}
    consts = symex.parse_consts(text)
    src = open(os.path.join(REPO, "crates", "erltf", "src", "term.rs")).read()
    m = re.search(r"pub enum OwnedTerm \{(.*?)\n\}", src, re.S)
    enum = {v: i for i, v in enumerate(re.findall(r"^\s{4}(\w+)\s*[\({,]", m.group(1), re.M))}

    def resolver(callee):
        c = re.sub(r"^encoder::", "", callee)
        c = re.sub(r"::<.*>$", "", c)
        return fns.get(c)
    return fns, consts, resolver, enum


def atom(i):
    return symex.Val("struct", name="Atom", fields=[symex.Val("bytes", chunks=[("in_a%d" % i, "in_n%d" % i)])])


def AND(xs):
    xs = [x for x in xs if x != "true"]
    return "true" if not xs else "(and %s)" % " ".join(xs)


def run_case(k, code, wrap=False):
    fns, consts, resolver, enum = code
    name = "c14_header_writer__%d_atoms%s" % (k, "_in_a_tuple" if wrap else "")
    t0 = time.time()
    sol = heapex.Solver(timeout_s=60)
    failures, npaths, done = [], 0, 0
    ins = ["in_a%d" % i for i in range(k)] + ["in_n%d" % i for i in range(k)]
    try:
        sol.declare("hx_probe", "(_ BitVec 64)")
        for n_ in ins:
            sol.declare(n_, "(_ BitVec 64)")
        for i in range(k):
            sol.assume("(bvult in_n%d (_ bv131072 64))" % i)
            for j in range(i):
                sol.assume("(=> (= in_a%d in_a%d) (= in_n%d in_n%d))" % (i, j, i, j))
        it = heapex.Interp(fns, consts, sol, resolver, max_alloc=8)
        it.enums = {"OwnedTerm": enum}
        it.user_stubs = [(r"OwnedTerm::estimated_encoded_size$", lambda itp, c, a: symex.BV(64, "(_ bv64 64)"))]
        work, seen = [[]], set()
        while work:
            prefix = work.pop()
            it.reset(prefix)
            npaths += 1
            if npaths > 3000:
                raise symex.Unsupported("more than 3000 paths")
            terms = [[heapex.mk_enum("OwnedTerm", "Atom", enum["Atom"], [atom(i)])] for i in range(k)]
            if wrap:    # one term: the tuple of the k atoms
                terms = [[heapex.mk_enum("OwnedTerm", "Tuple", enum["Tuple"], [symex.Val("vec", items=[t[0] for t in terms])])]]
            slice_ = [symex.Val("vec", items=[symex.Val("ref", lst=t, idx=0) for t in terms])]
            fail = None
            try:
                res = it.call_fn(fns["encode_with_dist_header_multi"], [symex.Val("ref", lst=slice_, idx=0)])
                if res.kind != "enum" or res.ename != "Result":
                    raise symex.Unsupported("result %r" % (res,))
                if res.idx != 0:
                    # an error is the documented answer only for an atom whose length does not fit the 16-bit length field
                    r, m = sol.check(it.pc + ["(bvult in_n%d (_ bv65536 64))" % i for i in range(k)], want_model=ins)
                    if r == "sat":
                        fail = ("L:encoding_reports_an_error_although_every_atom_fits", m)
                    elif r != "unsat":
                        raise symex.Unsupported("solver %s" % r)
                else:
                    buf = res.fields[0]
                    fail = read_back(it, sol, buf, k, ins, wrap)
                done += 1
            except heapex.Panic as e:
                r, m = sol.check(it.pc, want_model=ins)
                fail = ("L:panics:" + re.sub(r"[^A-Za-z0-9]+", "_", str(e))[:60], m if r == "sat" else None)
            except heapex.Infeasible:
                pass
            work.extend(it.pending)
            if fail and fail[0] not in seen:
                seen.add(fail[0])
                lab, m = fail
                vals = {n_: (m or {}).get(n_, 1) for n_ in ins}
                ok, rr = replay(k, vals, wrap)
                failures.append({"kind": "assert", "label": lab, "prop": name, "function": "encode_with_dist_header_multi",
                                 "desc": "%d atom terms with (identity, byte length) = %s" % (k, [(vals["in_a%d" % i], vals["in_n%d" % i]) for i in range(k)]),
                                 "values": [vals[n_] for n_ in ins], "replayed": ok, "replay_result": rr, "e2": {"k": k, "vals": vals, "wrap": wrap}})
        if done == 0 and not failures:
            return _rec(name, "VACUOUS", time.time() - t0, notes=["no path ran to the end"])
        sample = {"terms": k, "paths": npaths, "solver_queries": sol.queries, "mir_functions_executed": sorted(it.calls_seen), "assumptions_used": sorted(it.assumptions_used)}
        return _rec(name, "FAIL" if failures else "PASS", time.time() - t0, failures=failures, sample=sample, solver_s=sol.seconds, queries=sol.queries, paths=npaths)
    except symex.Unsupported as e:
        return _rec(name, "INCONCLUSIVE", time.time() - t0, notes=["cannot encode: %s" % e], queries=sol.queries, paths=npaths)
    finally:
        sol.close()


def read_back(it, sol, buf, k, ins, wrap=False):
    """independent reader of [131, 68, n, flags, refs..., terms...] over the symbolic buffer; returns (label, model) or None"""
    if buf.kind != "u8buf":
        raise symex.Unsupported("output is %s" % buf.kind)
    items = list(buf.items)
    pos = [0]

    def sat(cond):
        r, m = sol.check(it.pc + [cond], want_model=ins)
        if r == "sat":
            return m
        if r != "unsat":
            raise symex.Unsupported("solver %s" % r)
        return None

    def byte():
        if pos[0] >= len(items) or not isinstance(items[pos[0]], symex.Val):
            return None
        b = items[pos[0]]
        pos[0] += 1
        return b.s

    def expect(val, label):
        b = byte()
        if b is None:
            return (label + "_missing", sat("true") or {})
        m = sat("(not (= %s (_ bv%d 8)))" % (b, val))
        return (label, m) if m is not None else None

    f = expect(131, "L:version_byte")
    if f:
        return f
    # number of distinct atoms on this path: read from the header itself, must be a literal
    if pos[0] < len(items) and isinstance(items[pos[0]], symex.Val) and heapex.lit_int(items[pos[0]]) != 68:
        # no header: every atom distinct-count 0 is impossible for atom terms
        return ("L:no_distribution_header_although_the_terms_contain_atoms", sat("true") or {})
    f = expect(68, "L:dist_header_tag")
    if f:
        return f
    nb = byte()
    n = heapex.lit_int(symex.BV(8, nb)) if nb else None
    if n is None:
        raise symex.Unsupported("symbolic number of cache references")
    fl = n // 2 + 1
    flags = [byte() for _ in range(fl)]
    if any(x is None for x in flags):
        return ("L:flag_bytes_missing", sat("true") or {})

    def nibble(j):
        b = flags[j // 2]
        return "((_ extract 3 0) %s)" % b if j % 2 == 0 else "((_ extract 7 4) %s)" % b
    spec_long = "(= ((_ extract 0 0) %s) #b1)" % nibble(n)
    table = []
    for i in range(n):
        m = sat("(not (= ((_ extract 3 3) %s) #b1))" % nibble(i))
        if m is not None:
            return ("L:new_cache_entry_flag_not_set_for_reference_%d" % i, m)
        m = sat("(not (= ((_ extract 2 0) %s) #b000))" % nibble(i))
        if m is not None:
            return ("L:segment_index_bits_of_reference_%d_are_not_zero" % i, m)
        idx = byte()
        if idx is None:
            return ("L:internal_segment_index_missing", sat("true") or {})
        # how many length bytes did the writer emit?  the next chunk tells
        nlen = 0
        while pos[0] + nlen < len(items) and isinstance(items[pos[0] + nlen], symex.Val):
            nlen += 1
        if pos[0] + nlen >= len(items) or nlen not in (1, 2):
            return ("L:atom_text_or_length_missing_for_reference_%d" % i, sat("true") or {})
        lens = [byte() for _ in range(nlen)]
        ch = items[pos[0]]
        pos[0] += 1
        if nlen == 2:
            m = sat("(not %s)" % spec_long)
            if m is not None:
                return ("L:two_byte_atom_lengths_but_the_long_atoms_bit_is_not_where_the_protocol_puts_it", m)
            lval = "(concat (_ bv0 48) %s %s)" % (lens[0], lens[1])
        else:
            m = sat(spec_long)
            if m is not None:
                return ("L:one_byte_atom_lengths_but_the_long_atoms_bit_is_set", m)
            lval = "(concat (_ bv0 56) %s)" % lens[0]
        m = sat("(not (= %s %s))" % (lval, ch[2]))
        if m is not None:
            return ("L:length_field_of_reference_%d_differs_from_the_atom_text_length" % i, m)
        table.append((idx, ch[1]))
    # terms: ATOM_CACHE_REF idx, must resolve to the term's own atom
    if wrap:
        f = expect(104, "L:small_tuple_tag")
        if f:
            return f
        f = expect(k, "L:tuple_arity")
        if f:
            return f
    for t in range(k):
        f = expect(ATOM_CACHE_REF, "L:term_%d_is_not_an_atom_cache_reference" % t)
        if f:
            return f
        idx = byte()
        if idx is None:
            return ("L:cache_index_missing", sat("true") or {})
        resolved = "(_ bv0 64)"
        hit = []
        for (ix, tk) in reversed(table):
            resolved = "(ite (= %s %s) %s %s)" % (idx, ix, tk, resolved)
            hit.append("(= %s %s)" % (idx, ix))
        m = sat("(not (and (or false %s) (= %s in_a%d)))" % (" ".join(hit), resolved, t))
        if m is not None:
            return ("L:term_%d_resolves_to_a_different_atom" % t, m)
    if pos[0] != len(items):
        return ("L:trailing_bytes_after_the_terms", sat("true") or {})
    return None


def replay(k, vals, wrap=False):
    from . import c16_replay
    b = c16_replay._binary()
    if b is None:
        return False, {"dev": (-1, "replay build failed")}
    args = ["disthdr_tuple" if wrap else "disthdr"] + ["%d:%d" % (vals["in_a%d" % i], vals["in_n%d" % i]) for i in range(k)]
    try:
        p = subprocess.run([b] + args, stdout=subprocess.PIPE, stderr=subprocess.STDOUT, text=True, timeout=60)
    except subprocess.TimeoutExpired:
        return False, {"dev": (-2, "timeout")}
    return p.returncode == 101, {"dev": (p.returncode, p.stdout[-500:])}


def replay_case(case):
    e = case.get("e2") or {}
    if "k" not in e:
        return None
    return replay(e["k"], e["vals"], e.get("wrap", False))


def extra_checks(tier, seed):
    out = []
    t0 = time.time()
    try:
        code = load()
    except (mir.MirError, OSError, AttributeError) as e:
        return [_rec("c14_encode", "INCONCLUSIVE", time.time() - t0, notes=["cannot dump/parse MIR: %s" % e])]
    if "encode_with_dist_header_multi" not in code[0]:
        return [_rec("c14_encode", "INCONCLUSIVE", time.time() - t0, notes=["encode_with_dist_header_multi not found in the MIR dump"])]
    cases = [(1, False), (2, False), (3, False), (2, True), (3, True)] + ([(4, False), (4, True), (5, False)] if tier == "thorough" else [])
    for k, wrap in cases:
        r = run_case(k, code, wrap)
        out.append(r)
        log("[C14] %-44s %-12s %6.1fs paths=%s queries=%s %s" % (r["harness"], r["status"], r["wall_s"], r.get("steps"), r.get("vccs"),
                                                              "; ".join(r.get("notes") or []) or ", ".join(x["label"] for x in r.get("failures", []))))
    return out
