"""C20 (E2/heapex part): the proplist <-> map helpers convert back to what went in.

The MIR of `OwnedTerm::{proplist_to_map, map_to_proplist}` (and the closure / `boolean` they call) is executed by
mir_smt/heapex.py on lists and maps of concrete *shape* whose keys and values are symbolic: atoms and binaries are 64-bit
identity tokens, integers are any i64.  BTreeMap is modelled as an association list keyed by structural equality."""
import hashlib
import itertools
import os
import re
import subprocess
import time

from ..e1 import WORK, REPO, TARGET, log
from mir_smt import mir, symex, heapex

Val, BV = symex.Val, symex.BV


def _rec(name, status, wall, notes=None, failures=None, sample=None, solver_s=0.0, queries=0, paths=0):
    return {"harness": name, "desc": sample or name, "status": status, "wall_s": wall, "notes": notes or [], "failures": failures or [],
            "engine": "e2", "nontrivial": 1, "solver_s": solver_s, "vccs": queries, "vccs_remaining": queries, "sat_calls": queries, "steps": paths}


def tok(text):
    return int.from_bytes(hashlib.sha1(text.encode()).digest()[:8], "big")


def load():
    mdir = os.path.join(WORK, "mir")
    os.makedirs(mdir, exist_ok=True)
    path = os.path.join(mdir, "erltf.mir")
    mir.dump_mir(os.path.join(REPO, "crates", "erltf"), path, os.path.join(TARGET, "mir"))
    text = open(path).read()
    fns = {f.name: f for f in mir.parse_functions(text, r"^fn term::<impl at [^>]*>::(proplist_to_map|map_to_proplist|boolean|is_proplist_element|is_proplist)\b")}
    consts = symex.parse_consts(text)
    src = open(os.path.join(REPO, "crates", "erltf", "src", "term.rs")).read()
    m = re.search(r"pub enum OwnedTerm \{(.*?)\n\}", src, re.S)
    variants = re.findall(r"^\s{4}(\w+)\s*[\({,]", m.group(1), re.M)
    enum = {v: i for i, v in enumerate(variants)}
    table = {}
    for name, f in fns.items():
        mm = re.match(r"^term::<impl at [^>]*>::(\w+)$", name)
        if mm:
            table["OwnedTerm::" + mm.group(1)] = f

    def resolver(callee):
        return table.get(re.sub(r"^term::", "", callee))
    return fns, consts, table, resolver, enum


def mk(enum, variant, *fields):
    return heapex.mk_enum("OwnedTerm", variant, enum[variant], list(fields))


def atom_val(expr):
    return Val("struct", name="Atom", fields=[BV(64, expr)])


def user_stubs(enum):
    def atom_new(it, c, a):
        s = a[0]
        if s.kind != "str":
            raise symex.Unsupported("atom from a non-constant string")
        return mk(enum, "Atom", atom_val("(_ bv%d 64)" % tok(s.text)))

    def atom_ctor(it, c, a):
        s = a[0]
        if s.kind != "str":
            raise symex.Unsupported("Atom::new of a non-constant string")
        return atom_val("(_ bv%d 64)" % tok(s.text))

    def type_name(it, c, a):
        return heapex.OPAQUE("type_name")
    return [(r"OwnedTerm::atom::<&str>$", atom_new), (r"^(types::)?Atom::new::<&str>$", atom_ctor), (r"OwnedTerm::type_name$", type_name)]


# element classes of a proplist: (name, builder(i) -> (term, key term or None, value term or None))
def build_elem(enum, cls, i):
    v = mk(enum, "Integer", BV(64, "in_v%d" % i))
    if cls == "TA":
        k = mk(enum, "Atom", atom_val("in_k%d" % i))
    elif cls == "TI":
        k = mk(enum, "Integer", BV(64, "in_k%d" % i))
    elif cls == "TB":
        k = mk(enum, "Binary", Val("bytes", chunks=[("in_k%d" % i, "(_ bv3 64)")]))
    elif cls == "TT":
        k = mk(enum, "Tuple", Val("vec", items=[mk(enum, "Integer", BV(64, "in_k%d" % i))]))
    elif cls == "A":
        a = mk(enum, "Atom", atom_val("in_k%d" % i))
        return a, heapex.clone_val(a), mk(enum, "Atom", atom_val("(_ bv%d 64)" % tok("true")))
    elif cls == "I":
        return mk(enum, "Integer", BV(64, "in_k%d" % i)), None, None
    elif cls == "T3":
        return mk(enum, "Tuple", Val("vec", items=[mk(enum, "Atom", atom_val("in_k%d" % i)), v, heapex.clone_val(v)])), None, None
    else:
        raise ValueError(cls)
    return mk(enum, "Tuple", Val("vec", items=[k, v])), heapex.clone_val(k), heapex.clone_val(v)


CLASSES = ["TA", "TI", "TB", "TT", "A", "I", "T3"]


def shapes_for(tier):
    out = [[c] for c in CLASSES]
    pairs = list(itertools.product(CLASSES, repeat=2))
    if tier == "quick":
        pairs = [p for p in pairs if p[0] <= p[1]]
    out += [list(p) for p in pairs]
    if tier == "thorough":
        out += [list(p) for p in itertools.product(["TA", "TI", "A", "I"], repeat=3)]
    return out


def run_shape(kind, shape, code):
    """kind 'p2m': proplist_to_map on a list of that shape; 'm2p2m': map -> proplist -> map on a map whose keys have those classes"""
    fns, consts, table, resolver, enum = code
    name = "c20_%s__%s" % ("proplist_to_map" if kind == "p2m" else "map_proplist_map", "_".join(shape))
    t0 = time.time()
    sol = heapex.Solver(timeout_s=60)
    failures, npaths, done = [], 0, 0
    try:
        sol.declare("hx_probe", "(_ BitVec 64)")
        for i in range(len(shape)):
            sol.declare("in_k%d" % i, "(_ BitVec 64)")
            sol.declare("in_v%d" % i, "(_ BitVec 64)")
        it = heapex.Interp(fns, consts, sol, resolver, max_alloc=6)
        it.enums = {"OwnedTerm": enum}
        it.user_stubs = user_stubs(enum)
        work, seen = [[]], set()
        while work:
            prefix = work.pop()
            it.reset(prefix)
            npaths += 1
            if npaths > 2000:
                raise symex.Unsupported("more than 2000 paths")
            elems = [build_elem(enum, c, i) for i, c in enumerate(shape)]
            fail = None
            try:
                if kind == "m2p2m":
                    if any(k is None for _t, k, _v in elems):
                        return None
                    # the input map: keys pairwise different (it is a map)
                    entries = []
                    for (_t, k, v) in elems:
                        for (k2, _v2) in entries:
                            e = heapex.eq_expr(k2, k)
                            if e != "false":
                                it.pc.append("(not %s)" % e)
                        entries.append([k, v])
                    r0, _ = sol.check(it.pc)
                    if r0 != "sat":
                        raise heapex.Infeasible("keys cannot be distinct")
                    inp = [mk(enum, "Map", Val("map", entries=[[heapex.clone_val(k), heapex.clone_val(v)] for k, v in entries]))]
                    pl = it.call_fn(table["OwnedTerm::map_to_proplist"], [Val("ref", lst=inp, idx=0)])
                    if pl.idx != 0 or pl.fields[0].vname != "List" or len(pl.fields[0].fields[0].items) != len(entries):
                        fail = ("L:map_to_proplist_yields_one_pair_per_entry", None)
                    else:
                        cell = [pl.fields[0]]
                        res = it.call_fn(table["OwnedTerm::proplist_to_map"], [Val("ref", lst=cell, idx=0)])
                        expect = entries
                else:
                    inp = [mk(enum, "List", Val("vec", items=[t for t, _k, _v in elems]))]
                    res = it.call_fn(table["OwnedTerm::proplist_to_map"], [Val("ref", lst=inp, idx=0)])
                    # expectation: for each keyed element the value of the last keyed element with an equal key
                    keyed = [(k, v) for _t, k, v in elems if k is not None]
                    expect = []
                    for a, (k, v) in enumerate(keyed):
                        lastv = v
                        conds = []
                        for (k2, v2) in keyed[a + 1:]:
                            conds.append((heapex.eq_expr(k, k2), v2))
                        expect.append([k, v, conds])
                if fail is None:
                    if res.kind != "enum" or res.idx != 0 or res.fields[0].vname != "Map":
                        fail = ("L:conversion_returns_a_map", None)
                    else:
                        got = res.fields[0].fields[0].entries
                        want = sorted("in_%s%d" % (x, i) for i in range(len(shape)) for x in "kv")
                        for ent in expect:
                            k, v = ent[0], ent[1]
                            # value expected for this key: that of the last element with an equal key (this one or a later one)
                            cands = [("true", v)] + (list(ent[2]) if len(ent) > 2 else [])
                            present = []
                            for (gk, gv) in got:
                                e = heapex.eq_expr(gk, k)
                                if e == "false":
                                    continue
                                alts = []
                                for j, (c, vj) in enumerate(cands):
                                    later = ["(not %s)" % c2 for (c2, _v2) in cands[j + 1:] if c2 != "false"]
                                    alts.append(heapex_and([c] + later + [heapex.eq_expr(gv, vj)]))
                                present.append(heapex_and([e, "(or false %s)" % " ".join(a for a in alts if a != "false")]))
                            miss = "(not (or false %s))" % " ".join(present)
                            r, m = sol.check(it.pc + [miss], want_model=want)
                            if r == "sat":
                                fail = ("L:entry_lost_or_altered_by_the_conversion", m)
                                break
                            if r != "unsat":
                                raise symex.Unsupported("solver %s" % r)
                        if fail is None:
                            for (gk, gv) in got:
                                src = [heapex.eq_expr(gk, ent[0]) for ent in expect]
                                extra = "(not (or false %s))" % " ".join(s for s in src if s != "false")
                                r, m = sol.check(it.pc + [extra], want_model=want)
                                if r == "sat":
                                    fail = ("L:conversion_invents_an_entry", m)
                                    break
                                if r != "unsat":
                                    raise symex.Unsupported("solver %s" % r)
                done += 1
            except heapex.Panic as e:
                r, m = sol.check(it.pc, want_model=sorted("in_%s%d" % (x, i) for i in range(len(shape)) for x in "kv"))
                fail = ("L:panics:" + re.sub(r"[^A-Za-z0-9]+", "_", str(e))[:60], m if r == "sat" else None)
            except heapex.Infeasible:
                pass
            work.extend(it.pending)
            if fail and fail[0] not in seen:
                seen.add(fail[0])
                lab, m = fail
                vals = {("in_%s%d" % (x, i)): (m or {}).get("in_%s%d" % (x, i), i + 1) for i in range(len(shape)) for x in "kv"}
                ok, rr = replay(kind, shape, vals)
                failures.append({"kind": "assert", "label": lab, "prop": name, "function": "OwnedTerm::proplist_to_map / map_to_proplist",
                                 "desc": "%s on shape %s with %s" % (kind, shape, vals), "values": [vals[k] for k in sorted(vals)],
                                 "replayed": ok, "replay_result": rr, "e2": {"props": kind, "shape": shape, "vals": vals}})
        if done == 0 and not failures:
            return _rec(name, "VACUOUS", time.time() - t0, notes=["no path ran to the end"])
        sample = {"shape": shape, "law": kind, "paths": npaths, "solver_queries": sol.queries, "assumptions_used": sorted(it.assumptions_used)}
        return _rec(name, "FAIL" if failures else "PASS", time.time() - t0, failures=failures, sample=sample, solver_s=sol.seconds, queries=sol.queries, paths=npaths)
    except symex.Unsupported as e:
        return _rec(name, "INCONCLUSIVE", time.time() - t0, notes=["cannot encode: %s" % e], queries=sol.queries, paths=npaths)
    finally:
        sol.close()


def heapex_and(xs):
    xs = [x for x in xs if x != "true"]
    if any(x == "false" for x in xs):
        return "false"
    return "true" if not xs else "(and %s)" % " ".join(xs)


def replay(kind, shape, vals):
    from . import c16_replay
    b = c16_replay._binary()
    if b is None:
        return False, {"dev": (-1, "replay build failed")}
    args = ["props", kind] + ["%s:%d:%d" % (c, vals["in_k%d" % i], vals["in_v%d" % i]) for i, c in enumerate(shape)]
    try:
        p = subprocess.run([b] + args, stdout=subprocess.PIPE, stderr=subprocess.STDOUT, text=True, timeout=60)
    except subprocess.TimeoutExpired:
        return False, {"dev": (-2, "timeout")}
    return p.returncode == 101, {"dev": (p.returncode, p.stdout[-400:])}


def run(tier, out):
    t0 = time.time()
    try:
        code = load()
    except (mir.MirError, OSError, AttributeError) as e:
        out.append(_rec("c20_proplist_encode", "INCONCLUSIVE", time.time() - t0, notes=["cannot dump/parse MIR: %s" % e]))
        return
    miss = [n for n in ("OwnedTerm::proplist_to_map", "OwnedTerm::map_to_proplist") if n not in code[2]]
    if miss:
        out.append(_rec("c20_proplist_encode", "INCONCLUSIVE", time.time() - t0, notes=["functions not found in the MIR dump: %s" % miss]))
        return
    only = os.environ.get("VERIF_C20P_ONLY")
    for shape in shapes_for(tier):
        for kind in ("p2m", "m2p2m"):
            if kind == "m2p2m" and any(c in ("I", "T3") for c in shape):
                continue
            r = run_shape(kind, shape, code)
            if r is None or (only and not re.search(only, r["harness"])):
                continue
            out.append(r)
            if r["status"] != "PASS":
                log("[C20] %-60s %-12s %6.1fs %s" % (r["harness"], r["status"], r["wall_s"], "; ".join(r.get("notes") or []) or ", ".join(x["label"] for x in r.get("failures", []))))
    n = sum(1 for r in out if r["harness"].startswith("c20_proplist_to_map") or r["harness"].startswith("c20_map_proplist_map"))
    log("[C20] proplist/map helpers: %d shape queries, %.1fs" % (n, time.time() - t0))
