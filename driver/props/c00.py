"""Alias so `./check C00` runs the engine self-test harnesses."""
from .selftest import *  # noqa
PROP_ID = "C00"
