"""Scratch property for engine experiments (not registered in MANIFEST)."""
from ..e1 import Harness
PROP_ID = "C00"
FEATURE = "c00"
SRC = r'''
use crate::terms::*;
use crate::vk;
use erltf::OwnedTerm;
#[inline(never)]
fn marker(x: u8) { let mut i = 0u8; while i < x { i += 1; } assert!(i != 77, "L:marker"); }
fn probe(a: &OwnedTerm) {
    match a {
        OwnedTerm::Reference(_) => marker(1),
        OwnedTerm::Integer(_) => marker(2),
        OwnedTerm::Tuple(_) => marker(3),
        OwnedTerm::Map(_) => marker(4),
        _ => marker(5),
    }
}


/// re-write the first 8 bytes (the niche word that encodes the variant) with the value they already hold
fn pin(t: &mut OwnedTerm, word: u64) {
    let p = t as *mut OwnedTerm as *mut u64;
    unsafe { vk::assume(*p == word); *p = word; }
}
fn word_of(t: &OwnedTerm) -> u64 { unsafe { *(t as *const OwnedTerm as *const u64) } }
#[cfg_attr(kani, kani::proof)]
pub fn scratch_ref_pin() { let (mut a, _r) = mk_ref::<1>(); pin(&mut a, 1); probe(&a); vk::leak(a); vk::reached(); }
#[cfg_attr(kani, kani::proof)]
pub fn scratch_tuple_pin() {
    let tag = word_of(&OwnedTerm::Integer(0));
    let (mut a, _r) = mk_tuple(vec![mk_int()]);
    if let OwnedTerm::Tuple(v) = &mut a { pin(&mut v[0], tag); probe(&v[0]); }
    vk::leak(a); vk::reached(); }
'''
def generate(tier, seed):
    return SRC, [Harness(n, n, unwind=4) for n in ["scratch_ref_pin", "scratch_tuple_pin"]]
