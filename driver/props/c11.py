"""C11 — term comparison is a lawful total preorder consistent with equality and hashing."""
from ..e1 import Harness
from .. import shapes

PROP_ID = "C11"
FEATURE = "c11"
ENGINE = "E1 kani-cbmc"
FUNCTIONS = [
    "erltf::term::<OwnedTerm as Ord>::cmp", "<OwnedTerm as PartialEq>::eq (derived)", "<OwnedTerm as Hash>::hash",
    "term.rs compare_int_bigint/compare_bigint_int/compare_bigint/compare_int_float/compare_float_int/"
    "compare_bigint_float/compare_float_bigint/bigint_to_u64/bigint_to_f64/compare_term_lists",
    "erltf::borrowed::<BorrowedTerm as Ord>::cmp + its helper copies", "<BorrowedTerm as From<&OwnedTerm>>::from",
    "types.rs PartialEq/Hash/Ord of ExternalPid/ExternalPort/ExternalReference/ExternalFun/Atom",
]
ASSUMPTIONS = [
    "well-formed terms only: finite floats; BigInt digits non-empty with non-zero most significant digit; "
    "BitBinary bits in 1..=8 with zero padding bits; atoms/strings ASCII (valid UTF-8 by construction)",
    "atoms are built by `Atom { name: Arc::from(..) }` (public field), not `Atom::new` (interning loop is not under test)",
]
OUTSIDE = ["terms deeper than 1 container level or wider than 2 elements", "maps (BTreeMap construction under CBMC; see C12 notes)",
           "atoms/binaries longer than 2 bytes", "BigInt longer than 9 digits"]


UNW = 10
CAP = 150
UWS = [(r"^terms::Rec::|^<terms::Rec as ", 50), (r"^terms::", 12), (r"^memcmp$", 18), (r"try_rfold|try_fold|iter_compare", 12), (r"::bigint_to_[a-z0-9]+$", 12)]
# recursion depth of the term-recursive functions = depth of the deepest shape + 1 frames.
# (Heap-stored elements and the untagged `Reference` variant have discriminants CBMC cannot
# constant-propagate, so symex enters every arm at each level; the recursion bound plus the
# unwinding assertions (proved by the solver) keep that finite and sound.)
def rec_for(names):
    # CBMC semantics: a recursion limit L admits L nested re-entries (L+1 frames)
    depth = 1 if any(shapes.LEAVES[n][2] in ("tuple", "list") and n not in ("nil", "tuple0", "list0") for n in names) else 0
    return [(r"(OwnedTerm|BorrowedTerm<'_>) as std::(cmp::Ord>::cmp|cmp::PartialEq>::eq|hash::Hash>::hash)", depth),
            (r"BorrowedTerm<'_> as std::convert::From<&erltf::OwnedTerm>>::from$", depth),
            (r"compare_term_lists|compare_owned_term_lists", 0)]


def bounds(tier):
    return {"values": "every scalar field/byte cell fully symbolic over its machine type",
            "shapes": sorted(shapes.LEAVES.keys()),
            "pairs": "all same-family pairs + one representative per cross-family pair",
            "triples": "numeric {int,float,big8}^3, list family, bit-string family" + (" + big1/big9 mixes" if tier == "thorough" else ""),
            "unwind": 12}


def has_container(names):
    """shapes whose elements live on the heap: T4 (word-typed heap) keeps their discriminants constant"""
    return any(n in ("tuple1i", "tuple2ii", "list1", "imp1", "tuple2", "list2") for n in names)


def cuts_for(names):
    """T2 cut list derived mechanically from the shapes' variant set."""
    txt = " ".join(shapes.LEAVES[n][0] for n in names)
    c = [r"collections::btree", r"BTreeMap"]          # no maps in any C11 shape
    if "mk_big" not in txt:
        c += [r"compare_int_bigint", r"compare_bigint", r"bigint_to_", r"compare_float_bigint", r"BigInt as std::cmp::PartialEq",
              r"BigInt as std::hash::Hash"]
    if "mk_float" not in txt:
        c += [r"compare_int_float", r"compare_float_int"]
    containers = any(shapes.LEAVES[n][2] in ("tuple", "list") for n in names)
    if "mk_intfun" not in txt:
        c += [r"InternalFun as std::cmp::PartialEq"]
        if not containers:
            # the element-wise list comparison is only cut where no shape has elements: a change that routes tuples or lists through
            # it must be *decided*, not stopped at the cut (seed C12-m6)
            c += [r"compare_term_lists", r"compare_owned_term_lists"]
    return c


def fn(name, body):
    return "#[cfg_attr(kani, kani::proof)]\npub fn %s() {\n%s\n    vk::reached();\n}\n" % (name, body)


def pair_list(tier):
    return shapes.pairs_same_family() + shapes.pairs_cross_family()


def cross_groups():
    """cross-family pairs (decided by type rank alone) grouped per first family: one harness each"""
    g = {}
    for a, b in shapes.pairs_cross_family():
        g.setdefault(a, []).append(b)
    return g


def generate(tier, seed):
    L = shapes.LEAVES
    src = ["use crate::terms::*;\nuse crate::c11::*;\nuse crate::vk;\n"]
    hs = []
    for a, b in shapes.pairs_same_family():
        n = "c11_pair__%s__%s" % (a, b)
        body = ("    let (a, _ra) = %s;\n    let (b, _rb) = %s;\n    pair_laws(&a, &b);\n    borrowed_agrees(&a, &b);\n"
                "    vk::leak(a); vk::leak(b);" % (L[a][0], L[b][0]))
        src.append(fn(n, body))
        hs.append(Harness(n, "antisymmetry, reflexivity, a==b => cmp Equal, a==b => equal hash transcript, and BorrowedTerm "
                             "orders/equates the pair exactly as OwnedTerm, on shapes %s x %s" % (a, b),
                          unwind=UNW, unwindset=UWS, recursion=rec_for([a, b]), cap_s=(900 if 'tuple2ii' in (a, b) else CAP), cuts=cuts_for([a, b]), typed_heap=has_container([a, b])))
    for a, bs in cross_groups().items():
        n = "c11_cross__%s" % a
        body = "    let (a, _ra) = %s;\n" % L[a][0]
        for k, b in enumerate(bs):
            body += "    let (b%d, _r%d) = %s;\n    pair_laws(&a, &b%d);\n    borrowed_agrees(&a, &b%d);\n    vk::leak(b%d);\n" % (
                k, k, L[b][0], k, k, k)
        body += "    vk::leak(a);"
        src.append(fn(n, body))
        hs.append(Harness(n, "pair laws + owned/borrowed agreement for %s against one representative of every other type rank: %s" % (a, bs),
                          unwind=UNW, unwindset=UWS, recursion=rec_for([a] + bs), cap_s=CAP, cuts=cuts_for([a] + bs), typed_heap=has_container([a] + bs)))
    fam_tr = [["int", "float", "big8"], ["int", "float", "big8x"], ["nil", "list0", "imp1"], ["bin1", "bit1", "str1"]]
    if tier == "thorough":
        fam_tr = [["int", "float", "big1", "big8", "big9"], ["nil", "list0", "list1", "imp1"],
                  ["bin0", "bin1", "bin2", "bit1", "bit2", "str1"], ["tuple0", "tuple1i"], ["extfun", "intfun"], ["ref1", "ref2"],
                  ["atom1", "atom2"]]
    seen = set()
    for fam in fam_tr:
        for a in fam:
            for b in fam:
                for c in fam:
                    n = "c11_trans__%s__%s__%s" % (a, b, c)
                    if n in seen:
                        continue
                    seen.add(n)
                    body = ("    let (a, _ra) = %s;\n    let (b, _rb) = %s;\n    let (c, _rc) = %s;\n    trans(&a, &b, &c);\n"
                            "    vk::leak(a); vk::leak(b); vk::leak(c);" % (L[a][0], L[b][0], L[c][0]))
                    src.append(fn(n, body))
                    hs.append(Harness(n, "transitivity of <= and of Equal on shapes %s, %s, %s" % (a, b, c),
                                      unwind=UNW, unwindset=UWS, recursion=rec_for([a, b, c]), cap_s=CAP,
                                      cuts=cuts_for([a, b, c]), typed_heap=has_container([a, b, c])))
    return "\n".join(src), hs
