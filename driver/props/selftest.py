"""Engine self-test: known-answer harnesses run before every check.  They validate the pipeline
(T1 elision, T4 word-typed heap, stubs, classification): each `st_ok_*` must PASS and `st_bad_*`
must FAIL with a natively reproducing counterexample; otherwise the check is inconclusive (exit 2)."""
from ..e1 import Harness

PROP_ID = "SELFTEST"
FEATURE = "c00"
SRC = r'''
use crate::terms::*;
use crate::vk;
use crate::vassert;
use erltf::{OwnedTerm, BorrowedTerm};

/// Vec::extend/collect go through SetLenOnDrop: eliding that destructor would give len 0
#[cfg_attr(kani, kani::proof)]
pub fn st_ok_collect_len() {
    let (x, y) = (vk::i64(), vk::i64());
    let v: Vec<i64> = [x, y].iter().map(|a| a.wrapping_add(1)).collect();
    vassert!(v.len() == 2 && v[1] == y.wrapping_add(1), "L:collect_len");
    let mut w: Vec<u8> = Vec::new();
    w.extend_from_slice(&[1, 2, 3]);
    w.extend([x as u8, y as u8].iter().copied());
    vassert!(w.len() == 5 && w[4] == y as u8, "L:extend_len");
    vk::leak(w); vk::leak(v);

    vk::reached();
}

/// the heap model keeps bytes and words consistent (T4: word-typed objects)
#[cfg_attr(kani, kani::proof)]
pub fn st_ok_heap_bytes() {
    let x = vk::u64();
    let b = Box::new(x);
    let p = &*b as *const u64 as *const u8;
    let lo = unsafe { *p };
    let hi = unsafe { *p.add(7) };
    vassert!(lo == (x & 0xff) as u8 && hi == (x >> 56) as u8, "L:byte_view_of_word");
    let v = x.to_le_bytes().to_vec();
    vassert!(u64::from_le_bytes([v[0], v[1], v[2], v[3], v[4], v[5], v[6], v[7]]) == x, "L:vec_bytes");
    let mut s = String::new();
    s.push('a');
    s.push_str("bc");
    vassert!(s.len() == 3 && s.as_bytes()[2] == b'c', "L:string");
    vk::leak(b); vk::leak(v); vk::leak(s);
    vk::reached();
}

/// a violated assertion is reported, with a counterexample that replays natively
#[cfg_attr(kani, kani::proof)]
pub fn st_bad_detects() {
    let x = vk::u32();
    let v = vec![x, 7];
    vassert!(v[0] != 0xDEADBEEF || v[1] != 7, "L:selftest_must_fail");
    vk::leak(v);
    vk::reached();
}
'''


def generate(tier, seed):
    hs = [Harness("st_ok_collect_len", "collect/extend lengths and heap-stored discriminants are modelled faithfully", unwind=12, cap_s=300,
                  recursion=[(r"BorrowedTerm<'_> as std::convert::From", 1)], cuts=[r"collections::btree", r"BTreeMap"]),
          Harness("st_ok_heap_bytes", "byte/word views of heap objects agree (T4 word-typed heap)", unwind=12, cap_s=300, typed_heap=True),
          Harness("st_bad_detects", "a violated assertion is found and replays natively", unwind=12, cap_s=300)]
    return SRC, hs
