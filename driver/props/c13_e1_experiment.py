"""C13 — the zero-copy decoder agrees with the owned decoder."""
from ..e1 import Harness
from . import c01

PROP_ID = "C13"
FEATURE = "c13"
ENGINE = "E1 kani-cbmc"
QUICK_MAX_S = 125
FUNCTIONS = ["erltf::decode_borrowed -> parse_versioned_term_borrowed, parse_term_borrowed and every parse_*_borrowed; BorrowedTerm::to_owned",
             "erltf::decode on the same buffer", "errors.rs ContextualDecodeError/ParsingContext byte_offset"]
ASSUMPTIONS = c01.ASSUMPTIONS + ["agreement is decided as a chain through the reference: C01 c01_dec__<shape> fixes the owned decoder's variant and value on the "
                                 "reference bytes, C13 requires the same of decode_borrowed(..).to_owned() (both decoders in one query do not finish)"]
OUTSIDE = ["arbitrary byte strings and bit-flip mutations (free-form symbolic bytes are beyond CBMC on this decoder)", "containers deeper than 1"]
SHAPES = ["int_small", "int_i32", "int_w5", "float", "big3", "atom1", "atom2", "bin0", "bin2", "bit1", "nil", "pid", "port", "ref1", "ref2",
          "extfun", "tuple0", "tuple1i", "list1", "imp1"]


def bounds(tier):
    return {"shapes": SHAPES, "inputs": "complete reference encoding; every proper prefix (symbolic cut offset)"}


def fn(name, body):
    return c01.STUBS + "#[cfg_attr(kani, kani::proof)]\npub fn %s() {\n%s\n    vk::reached();\n}\n" % (name, body)


def generate(tier, seed):
    src = ["use crate::terms::*;\nuse crate::c13::*;\nuse crate::vk;\n"]
    hs = []
    for s in SHAPES:
        mode = c01.MODES.get(s, (0, 0))
        bits = 1 if s.startswith("bit") else 0
        cont = s in ("tuple1i", "list1", "imp1")
        for kind in ("complete", "truncated"):
            n = "c13_%s__%s" % (kind, s)
            src.append(fn(n, "    let (t, r) = %s;\n    %s(&r, %d, %d, %d, %d);\n    vk::leak(t); vk::leak(r);" % (c01.expr(s), kind, mode[0], mode[1], bits, c01.KIND[s])))
            hs.append(Harness(n, "decode_borrowed on the %s reference encoding of shape %s: (complete) accepted, to_owned() has the variant and value the owned "
                                 "decoder returns for these bytes (c01_dec__%s); (truncated) rejected with the offset inside the input" % (kind, s, s),
                              unwind=6, unwindset=c01.UWS + [(r"^c13::", 12)], cap_s=900, cuts=c01.CUTS_NOZ, mem_gb=12,
                              recursion=[(r"parse_term_from_tag|parse_term$|parse_term_borrowed|to_owned|refetf::(accepts_at|denotes|emit)", 2 if cont else 1)]))
    return "\n".join(src), hs
