"""C13 (leaf-tag clause, E2/heapex): on every input the zero-copy parser of a leaf tag accepts exactly when the owned parser does.

Both copies of a leaf parser (parse_X and parse_X_borrowed) are executed from their MIR on the *same* abstract input: a slice of
symbolic length whose leading fields are shared symbols (the value read at a given offset is the same in both runs) and whose
UTF-8 validity is one shared Boolean.  For every pair of paths (one per copy) with different outcomes (Ok / Err) z3 decides that
the two path conditions cannot hold together."""
import os
import re
import subprocess
import time

from ..e1 import log
from mir_smt import symex, heapex
from . import c02_caps, c02_leaf

Val, BV = symex.Val, symex.BV
PAIRS = ["parse_binary", "parse_bit_binary", "parse_string_ext", "parse_small_big", "parse_large_big", "parse_atom_utf8", "parse_small_atom_utf8",
         "parse_atom_latin1", "parse_small_integer", "parse_integer", "parse_new_float"]


def explore(fname, code, sol):
    """-> list of (pc list, 'ok'|'err'|'panic')"""
    fns, consts, enum = code
    it = heapex.Interp(fns, consts, sol, lambda c: None, max_alloc=4)
    it.enums = {"OwnedTerm": enum}
    it.shared_input = True
    base = c02_caps.stubs(enum)
    number = base[0][1]

    def signed_or_float(it_, c, a):
        return number(it_, c.replace("be_i32", "be_u32").replace("be_f64", "be_u64"), a)

    def from_utf8(it_, c, a):
        sol.declare("in_utf8_ok", "Bool")
        if it_.branch("in_utf8_ok", "from_utf8 outcome"):
            return heapex.mk_enum("Result", "Ok", 0, [a[0]])
        return heapex.mk_enum("Result", "Err", 1, [heapex.OPAQUE("utf8error")])

    def is_ascii(it_, c, a):
        sol.declare("in_is_ascii", "Bool")
        return symex.BOOL("in_is_ascii")
    obs = []

    def bigint_new(it_, c, a):
        sg = it_.deref(a[0])
        obs.append(("bigint_sign", sg.s if sg.kind == "bool" else repr(getattr(sg, "vname", sg.kind))))
        return heapex.OPAQUE("bigint")
    extra = [(r"BigInt::new", bigint_new)]
    for rx, f in c02_leaf.extra_stubs():
        if "from_utf8" in rx:
            f = from_utf8
        elif "is_ascii" in rx:
            f = is_ascii
        extra.append((rx, f if f is not None else signed_or_float))
    it.user_stubs = extra + [x for x in base if "with_capacity" not in x[0]] + [(r"Vec::<.*>::with_capacity$", lambda i, c, a: Val("vec", items=[]))]
    out, work, n = [], [[]], 0
    while work:
        prefix = work.pop()
        it.reset(prefix)
        del obs[:]
        n += 1
        if n > 500:
            raise symex.Unsupported("more than 500 paths")
        try:
            n_params = len(re.findall(r"_\d+: ", fns[fname].header.split(") ->")[0]))
            inp = Val("slice", len="in_len")
            inp.off = 0
            r = it.call_fn(fns[fname], [inp] + [heapex.OPAQUE("ctx") for _ in range(n_params - 1)])
            if r.kind != "enum" or r.ename != "Result":
                raise symex.Unsupported("parser returned %r" % (r,))
            out.append((list(it.pc), "ok" if r.idx == 0 else "err", list(obs)))
        except heapex.Panic:
            out.append((list(it.pc), "panic", []))
        except heapex.Infeasible:
            pass
        except (AttributeError, KeyError, TypeError, IndexError) as e:
            raise symex.Unsupported("interpreter: %s: %s" % (type(e).__name__, e))
        work.extend(it.pending)
    return out


def run_pair(base, code):
    name = "c13_leaf_acceptance_agrees__%s" % base
    t0 = time.time()
    fns = code[0]
    if base not in fns or base + "_borrowed" not in fns:
        return c02_caps._rec(name, "INCONCLUSIVE", 0, notes=["parser pair not found in the MIR dump"])
    sol = heapex.Solver(timeout_s=60)
    try:
        sol.declare("hx_probe", "(_ BitVec 64)")
        sol.declare("in_len", "(_ BitVec 64)")
        sol.assume("(bvult in_len (_ bv1099511627776 64))")
        po = explore(base, code, sol)
        pb = explore(base + "_borrowed", code, sol)
        failures = []
        for (pc1, o1, ob1) in po:
            for (pc2, o2, ob2) in pb:
                if failures:
                    continue
                extra_c = []
                if o1 == o2:
                    # both accept: what they hand to the value constructors must agree (sign of a big integer)
                    diffs = ["(not (= %s %s))" % (x[1], y[1]) for x, y in zip(ob1, ob2) if x[0] == y[0] and x[1] != y[1] and not x[1].startswith("'")]
                    if o1 != "ok" or not diffs:
                        continue
                    extra_c = ["(or false %s)" % " ".join(diffs)]
                    o2 = "ok_with_a_different_value"
                want = ["in_len"] + sorted(k for k in sol.decls if k.startswith("in_b"))
                st, m = sol.check(pc1 + pc2 + extra_c, want_model=want)
                if st == "sat":
                    wire = [m.get(k, 0) for k in sorted((k for k in m if k.startswith("in_b")), key=lambda x: int(x.split("_")[1][1:]))]
                    ok, rr = replay(base, m.get("in_len", 0), wire)
                    failures.append({"kind": "assert", "label": "L:zero_copy_parser_%s_where_the_owned_parser_%s" % (o2 + "s", o1 + "s"), "prop": name, "function": base,
                                     "desc": "%s: owned %s, zero-copy %s on %d input bytes with leading fields %s" % (base, o1, o2, m.get("in_len", 0), wire),
                                     "values": [m.get("in_len", 0)] + wire, "replayed": ok, "replay_result": rr,
                                     "e2": {"agree": base, "in_len": m.get("in_len", 0), "wire": wire}})
                elif st != "unsat":
                    raise symex.Unsupported("solver %s" % st)
        sample = {"parsers": [base, base + "_borrowed"], "paths": [len(po), len(pb)], "solver_queries": sol.queries,
                  "query": "exists input length, leading field values and UTF-8 validity: one copy returns Ok and the other Err (or panics)"}
        return c02_caps._rec(name, "FAIL" if failures else "PASS", time.time() - t0, failures=failures, sample=sample, solver_s=sol.seconds,
                             queries=sol.queries, paths=len(po) + len(pb))
    except symex.Unsupported as e:
        return c02_caps._rec(name, "INCONCLUSIVE", time.time() - t0, notes=["cannot encode: %s" % e], queries=sol.queries)
    finally:
        sol.close()


def replay(base, in_len, wire):
    from . import c16_replay
    b = c16_replay._binary()
    if b is None:
        return False, {"dev": (-1, "replay build failed")}
    tag = c02_leaf.TAGBYTE.get(base)
    try:
        p = subprocess.run([b, "leaf", "agree", str(tag), str(in_len)] + [str(x) for x in wire], stdout=subprocess.PIPE, stderr=subprocess.STDOUT, text=True, timeout=60)
    except subprocess.TimeoutExpired:
        return False, {"dev": (-2, "timeout")}
    return p.returncode == 101, {"dev": (p.returncode, p.stdout[-300:])}


def run(out):
    t0 = time.time()
    try:
        from . import c02_caps as cc
        cc.load()                      # dumps the MIR of the working tree
        code = c02_leaf.load()
        extra = c02_leaf.mir.parse_functions(open(os.path.join(c02_leaf.WORK, "mir", "erltf.mir")).read(), r"^fn (parse_small_atom_latin1)\(")
    except Exception as e:
        out.append(c02_caps._rec("c13_leaf_encode", "INCONCLUSIVE", time.time() - t0, notes=["cannot dump/parse MIR: %s" % e]))
        return
    for b in PAIRS:
        r = run_pair(b, code)
        out.append(r)
        log("[C13] %-52s %-12s %6.1fs %s" % (r["harness"], r["status"], r["wall_s"], "; ".join(r.get("notes") or []) or ", ".join(x["label"] for x in r.get("failures", []))))
