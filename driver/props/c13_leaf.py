"""C13 (leaf-tag clause, E2/heapex): on every input the zero-copy parser of a leaf tag accepts exactly when the owned parser does.

Both copies of a leaf parser (parse_X and parse_X_borrowed) are executed from their MIR on the *same* abstract input: a slice of
symbolic length whose leading fields are shared symbols (the value read at a given offset is the same in both runs) and whose
UTF-8 validity is one shared Boolean.  For every pair of paths (one per copy) with different outcomes (Ok / Err) z3 decides that
the two path conditions cannot hold together."""
import os
import re
import subprocess
import time

from ..e1 import log
from mir_smt import symex, heapex
from . import c02_caps, c02_leaf

Val, BV = symex.Val, symex.BV
PAIRS = ["parse_binary", "parse_bit_binary", "parse_string_ext", "parse_small_big", "parse_large_big", "parse_atom_utf8", "parse_small_atom_utf8",
         "parse_atom_latin1", "parse_small_integer", "parse_integer", "parse_new_float"]


def explore(fname, code, sol):
    """-> list of (pc list, 'ok'|'err'|'panic')"""
    fns, consts, enum = code
    it = heapex.Interp(fns, consts, sol, lambda c: None, max_alloc=4)
    it.enums = {"OwnedTerm": enum}
    it.shared_input = True
    base = c02_caps.stubs(enum)
    number = base[0][1]

    def signed_or_float(it_, c, a):
        return number(it_, c.replace("be_i32", "be_u32").replace("be_f64", "be_u64"), a)

    def from_utf8(it_, c, a):
        sol.declare("in_utf8_ok", "Bool")
        if it_.branch("in_utf8_ok", "from_utf8 outcome"):
            return heapex.mk_enum("Result", "Ok", 0, [a[0]])
        return heapex.mk_enum("Result", "Err", 1, [heapex.OPAQUE("utf8error")])

    def is_ascii(it_, c, a):
        sol.declare("in_is_ascii", "Bool")
        return symex.BOOL("in_is_ascii")
    obs = []

    def bigint_new(it_, c, a):
        sg = it_.deref(a[0])
        obs.append(("bigint_sign", sg.s if sg.kind == "bool" else repr(getattr(sg, "vname", sg.kind))))
        return heapex.OPAQUE("bigint")
    extra = [(r"BigInt::new", bigint_new)]
    for rx, f in c02_leaf.extra_stubs():
        if "from_utf8" in rx:
            f = from_utf8
        elif "is_ascii" in rx:
            f = is_ascii
        extra.append((rx, f if f is not None else signed_or_float))
    it.user_stubs = extra + [x for x in base if "with_capacity" not in x[0]] + [(r"Vec::<.*>::with_capacity$", lambda i, c, a: Val("vec", items=[]))]
    out, work, n = [], [[]], 0
    while work:
        prefix = work.pop()
        it.reset(prefix)
        del obs[:]
        n += 1
        if n > 500:
            raise symex.Unsupported("more than 500 paths")
        try:
            n_params = len(re.findall(r"_\d+: ", fns[fname].header.split(") ->")[0]))
            inp = Val("slice", len="in_len")
            inp.off = 0
            r = it.call_fn(fns[fname], [inp] + [heapex.OPAQUE("ctx") for _ in range(n_params - 1)])
            if r.kind != "enum" or r.ename != "Result":
                raise symex.Unsupported("parser returned %r" % (r,))
            out.append((list(it.pc), "ok" if r.idx == 0 else "err", list(obs)))
        except heapex.Panic:
            out.append((list(it.pc), "panic", []))
        except heapex.Infeasible:
            pass
        except (AttributeError, KeyError, TypeError, IndexError) as e:
            raise symex.Unsupported("interpreter: %s: %s" % (type(e).__name__, e))
        work.extend(it.pending)
    return out


def run_pair(base, code):
    name = "c13_leaf_acceptance_agrees__%s" % base
    t0 = time.time()
    fns = code[0]
    if base not in fns or base + "_borrowed" not in fns:
        return c02_caps._rec(name, "INCONCLUSIVE", 0, notes=["parser pair not found in the MIR dump"])
    sol = heapex.Solver(timeout_s=60)
    try:
        sol.declare("hx_probe", "(_ BitVec 64)")
        sol.declare("in_len", "(_ BitVec 64)")
        sol.assume("(bvult in_len (_ bv1099511627776 64))")
        po = explore(base, code, sol)
        pb = explore(base + "_borrowed", code, sol)
        failures = []
        for (pc1, o1, ob1) in po:
            for (pc2, o2, ob2) in pb:
                if failures:
                    continue
                extra_c = []
                if o1 == o2:
                    # both accept: what they hand to the value constructors must agree (sign of a big integer)
                    diffs = ["(not (= %s %s))" % (x[1], y[1]) for x, y in zip(ob1, ob2) if x[0] == y[0] and x[1] != y[1] and not x[1].startswith("'")]
                    if o1 != "ok" or not diffs:
                        continue
                    extra_c = ["(or false %s)" % " ".join(diffs)]
                    o2 = "ok_with_a_different_value"
                want = ["in_len"] + sorted(k for k in sol.decls if k.startswith("in_b"))
                st, m = sol.check(pc1 + pc2 + extra_c, want_model=want)
                if st == "sat":
                    wire = [m.get(k, 0) for k in sorted((k for k in m if k.startswith("in_b")), key=lambda x: int(x.split("_")[1][1:]))]
                    ok, rr = replay(base, m.get("in_len", 0), wire)
                    failures.append({"kind": "assert", "label": "L:zero_copy_parser_%s_where_the_owned_parser_%s" % (o2 + "s", o1 + "s"), "prop": name, "function": base,
                                     "desc": "%s: owned %s, zero-copy %s on %d input bytes with leading fields %s" % (base, o1, o2, m.get("in_len", 0), wire),
                                     "values": [m.get("in_len", 0)] + wire, "replayed": ok, "replay_result": rr,
                                     "e2": {"agree": base, "in_len": m.get("in_len", 0), "wire": wire}})
                elif st != "unsat":
                    raise symex.Unsupported("solver %s" % st)
        sample = {"parsers": [base, base + "_borrowed"], "paths": [len(po), len(pb)], "solver_queries": sol.queries,
                  "query": "exists input length, leading field values and UTF-8 validity: one copy returns Ok and the other Err (or panics)"}
        return c02_caps._rec(name, "FAIL" if failures else "PASS", time.time() - t0, failures=failures, sample=sample, solver_s=sol.seconds,
                             queries=sol.queries, paths=len(po) + len(pb))
    except symex.Unsupported as e:
        return c02_caps._rec(name, "INCONCLUSIVE", time.time() - t0, notes=["cannot encode: %s" % e], queries=sol.queries)
    finally:
        sol.close()


def replay(base, in_len, wire):
    from . import c16_replay
    b = c16_replay._binary()
    if b is None:
        return False, {"dev": (-1, "replay build failed")}
    tag = c02_leaf.TAGBYTE.get(base)
    try:
        p = subprocess.run([b, "leaf", "agree", str(tag), str(in_len)] + [str(x) for x in wire], stdout=subprocess.PIPE, stderr=subprocess.STDOUT, text=True, timeout=60)
    except subprocess.TimeoutExpired:
        return False, {"dev": (-2, "timeout")}
    return p.returncode == 101, {"dev": (p.returncode, p.stdout[-300:])}


def run(out):
    t0 = time.time()
    try:
        from . import c02_caps as cc
        cc.load()                      # dumps the MIR of the working tree
        code = c02_leaf.load()
        extra = c02_leaf.mir.parse_functions(open(os.path.join(c02_leaf.WORK, "mir", "erltf.mir")).read(), r"^fn (parse_small_atom_latin1)\(")
    except Exception as e:
        out.append(c02_caps._rec("c13_leaf_encode", "INCONCLUSIVE", time.time() - t0, notes=["cannot dump/parse MIR: %s" % e]))
        return
    for b in PAIRS:
        r = run_pair(b, code)
        out.append(r)
        log("[C13] %-52s %-12s %6.1fs %s" % (r["harness"], r["status"], r["wall_s"], "; ".join(r.get("notes") or []) or ", ".join(x["label"] for x in r.get("failures", []))))


# ------------------------------------------------------------------------------------------------ BorrowedTerm::to_owned on simple shapes
def _enum_of(path, name):
    src = open(path).read()
    m = re.search(r"pub enum %s(?:<[^>]*>)? \{(.*?)\n\}" % name, src, re.S)
    return {v: i for i, v in enumerate(re.findall(r"^\s{4}(\w+)\s*[\({,]", m.group(1), re.M))}


def run_to_owned(out):
    """to_owned keeps the variant, the element count and the integers of Nil / Integer / List(0..2) / Tuple(0..2) (nested one level)"""
    from ..e1 import REPO, WORK
    from mir_smt import mir
    t0 = time.time()
    name = "c13_to_owned_keeps_shape"
    try:
        text = open(os.path.join(WORK, "mir", "erltf.mir")).read()
        fns = {f.name: f for f in mir.parse_functions(text, r"^fn borrowed::<impl at [^>]*>::to_owned\(_1: &BorrowedTerm<'_>\) -> OwnedTerm")}
        if len(fns) != 1:
            raise mir.MirError("to_owned not found (%d)" % len(fns))
        fn = list(fns.values())[0]
        eo = _enum_of(os.path.join(REPO, "crates", "erltf", "src", "term.rs"), "OwnedTerm")
        eb = _enum_of(os.path.join(REPO, "crates", "erltf", "src", "borrowed.rs"), "BorrowedTerm")
    except Exception as e:
        out.append(c02_caps._rec(name, "INCONCLUSIVE", time.time() - t0, notes=["cannot load: %s" % e]))
        return
    sol = heapex.Solver(timeout_s=60)
    failures, nshapes = [], 0
    try:
        sol.declare("hx_probe", "(_ BitVec 64)")
        for i in range(4):
            sol.declare("in_i%d" % i, "(_ BitVec 64)")
        it = heapex.Interp(fns, symex.parse_consts(text), sol, lambda c: fn if re.search(r"BorrowedTerm(::<'_>)?::to_owned$", c) else None, max_alloc=6)
        it.enums = {"OwnedTerm": eo, "BorrowedTerm": eb}
        B = lambda v, *f: heapex.mk_enum("BorrowedTerm", v, eb[v], list(f))
        I = lambda k: B("Integer", BV(64, "in_i%d" % k))
        shapes = {"nil": B("Nil"), "int": I(0)}
        for kind in ("List", "Tuple"):
            for n in range(3):
                shapes["%s%d" % (kind.lower(), n)] = B(kind, Val("vec", items=[I(k) for k in range(n)]))
            shapes["%s_of_empty_%s" % (kind.lower(), kind.lower())] = B(kind, Val("vec", items=[B(kind, Val("vec", items=[])), I(0)]))

        def same(b, o):
            if b.vname != o.vname:
                return "%s became %s" % (b.vname, o.vname)
            if b.vname == "Integer":
                return None if b.fields[0].s == o.fields[0].s else "integer changed"
            if b.vname in ("List", "Tuple"):
                bi, oi = b.fields[0].items, o.fields[0].items
                if len(bi) != len(oi):
                    return "%d elements became %d" % (len(bi), len(oi))
                for x, y in zip(bi, oi):
                    w = same(x, y)
                    if w:
                        return w
            return None
        for sname, term in shapes.items():
            nshapes += 1
            it.reset([])
            cell = [heapex.clone_val(term)]
            r = it.call_fn(fn, [Val("ref", lst=cell, idx=0)])
            if it.pending:
                raise symex.Unsupported("to_owned branches on a symbolic value")
            why = same(term, r) if r.kind == "enum" else "result is %s" % r.kind
            if why:
                ok, rr = replay_to_owned(sname)
                failures.append({"kind": "assert", "label": "L:to_owned_changes_the_term", "prop": name, "function": fn.name, "desc": "to_owned of %s: %s" % (sname, why),
                                 "values": [sname], "replayed": ok, "replay_result": rr, "e2": {"to_owned_shape": sname}})
                break
        sample = {"function": fn.name, "shapes": sorted(shapes), "query": "structural: variant, element count and integer expressions of the result equal the input's"}
        out.append(c02_caps._rec(name, "FAIL" if failures else "PASS", time.time() - t0, failures=failures, sample=sample, queries=nshapes, paths=nshapes))
    except (symex.Unsupported, AttributeError, KeyError, TypeError, IndexError) as e:
        out.append(c02_caps._rec(name, "INCONCLUSIVE", time.time() - t0, notes=["cannot encode: %s" % e]))
    finally:
        sol.close()
    r = out[-1]
    log("[C13] %-52s %-12s %6.1fs %s" % (r["harness"], r["status"], r["wall_s"], "; ".join(r.get("notes") or []) or ", ".join(x["desc"] for x in r.get("failures", []))))


def replay_to_owned(shape):
    from . import c16_replay
    b = c16_replay._binary()
    if b is None:
        return False, {"dev": (-1, "replay build failed")}
    try:
        p = subprocess.run([b, "toowned", shape], stdout=subprocess.PIPE, stderr=subprocess.STDOUT, text=True, timeout=60)
    except subprocess.TimeoutExpired:
        return False, {"dev": (-2, "timeout")}
    return p.returncode == 101, {"dev": (p.returncode, p.stdout[-300:])}
