"""C02 (E2/heapex part): no container parser of the owned decoder asks for a pre-allocation the input cannot justify.

Each parse_* function that calls `Vec::with_capacity` is executed from its MIR on an input slice of *symbolic length* and unknown
content: the nom number parsers return arbitrary values (and fail when fewer bytes remain), nested `parse_term` calls succeed with
an arbitrary term of one of the kinds the caller matches on, consuming at least one byte, or fail.  Execution stops at the first
`Vec::with_capacity(n)`; z3 decides that `n` cannot exceed both the number of input bytes and 65536 (a 16-bit count field /
MAX_PREALLOCATION).  The E1 harnesses of C02 stop deciding these parsers once the capacity is capped (they go on parsing elements
of unknown length), which is why this part exists."""
import os
import re
import subprocess
import time

from ..e1 import WORK, REPO, TARGET, log
from mir_smt import mir, symex, heapex

Val, BV = symex.Val, symex.BV
FUNCS = ["parse_list", "parse_small_tuple", "parse_large_tuple", "parse_new_fun_ext", "parse_newer_reference", "parse_new_reference_ext",
         "parse_compressed"]


class CapSite(Exception):
    def __init__(self, n, what):
        self.n, self.what = n, what


def _rec(name, status, wall, notes=None, failures=None, sample=None, solver_s=0.0, queries=0, paths=0):
    return {"harness": name, "desc": sample or name, "status": status, "wall_s": wall, "notes": notes or [], "failures": failures or [],
            "engine": "e2", "nontrivial": 1, "solver_s": solver_s, "vccs": queries, "vccs_remaining": queries, "sat_calls": queries, "steps": paths}


def load():
    mdir = os.path.join(WORK, "mir")
    os.makedirs(mdir, exist_ok=True)
    path = os.path.join(mdir, "erltf.mir")
    mir.dump_mir(os.path.join(REPO, "crates", "erltf"), path, os.path.join(TARGET, "mir"))
    text = open(path).read()
    fns = {f.name: f for f in mir.parse_functions(text, r"^fn (%s)\(" % "|".join(FUNCS))}
    consts = symex.parse_consts(text)
    src = open(os.path.join(REPO, "crates", "erltf", "src", "term.rs")).read()
    m = re.search(r"pub enum OwnedTerm \{(.*?)\n\}", src, re.S)
    enum = {v: i for i, v in enumerate(re.findall(r"^\s{4}(\w+)\s*[\({,]", m.group(1), re.M))}
    return fns, consts, enum


def stubs(enum):
    def ok(it, rest_len, val):
        return heapex.mk_enum("Result", "Ok", 0, [Val("struct", name="(tuple)", fields=[Val("slice", len=rest_len), val])])

    def err():
        return heapex.mk_enum("Result", "Err", 1, [heapex.OPAQUE("nom_error")])

    def number(it, c, a):
        k = int(re.search(r"be_u(\d+)", c).group(1)) // 8
        s = it.deref(a[0])
        if s.kind != "slice":
            raise symex.Unsupported("number parser on " + s.kind)
        if not it.branch(it.fold(symex.BOOL("(bvuge %s (_ bv%d 64))" % (s.len, k))).s, "be_u%d: enough input" % (8 * k)):
            return err()
        off = getattr(s, "off", None)
        if off is not None and getattr(it, "shared_input", False):
            v = "in_b%d_%d" % (off, k)
            it.solver.declare(v, "(_ BitVec %d)" % (8 * k))
            if v not in it.path_syms:
                it.path_syms.append(v)
        else:
            v = it.fresh("wire", "(_ BitVec %d)" % (8 * k))
        r = ok(it, it.fold(BV(64, "(bvsub %s (_ bv%d 64))" % (s.len, k))).s, BV(8 * k, v))
        if off is not None:
            r.fields[0].fields[0].off = off + k
        return r

    def take(it, c, a):
        return Val("takeparser", n=a[0])

    def take_call(it, c, a):
        p, args = a[0], a[1]
        p = it.deref(p)
        s = it.deref(args.fields[0]) if args.kind == "struct" else it.deref(args)
        if p.kind != "takeparser" or s.kind != "slice":
            raise symex.Unsupported("call of %s" % p.kind)
        if not it.branch(it.fold(symex.BOOL("(bvuge %s %s)" % (s.len, p.n.s))).s, "take: enough input"):
            return err()
        return ok(it, it.fold(BV(64, "(bvsub %s %s)" % (s.len, p.n.s))).s, Val("slice", len=p.n.s))

    def parse_term(it, c, a):
        s = it.deref(a[0])
        if s.kind != "slice":
            raise symex.Unsupported("parse_term on " + s.kind)
        if not it.branch(it.fold(symex.BOOL("(bvuge %s (_ bv1 64))" % s.len)).s, "parse_term: non-empty input"):
            return err()
        sel = it.fresh("term_kind", "(_ BitVec 8)")
        k = it.choose(["(= %s (_ bv0 8))" % sel, "(= %s (_ bv1 8))" % sel, "(= %s (_ bv2 8))" % sel, "(= %s (_ bv3 8))" % sel,
                       "(bvugt %s (_ bv3 8))" % sel], "parse_term: kind of the nested term")
        if k == 4:
            return err()
        rest = it.fresh("rest_len", "(_ BitVec 64)")
        it.pc.append("(bvult %s %s)" % (rest, s.len))
        if k == 0:
            t = heapex.mk_enum("OwnedTerm", "Atom", enum["Atom"], [heapex.OPAQUE("atom")])
        elif k == 1:
            t = heapex.mk_enum("OwnedTerm", "Integer", enum["Integer"], [BV(64, it.fresh("int", "(_ BitVec 64)"))])
        elif k == 2:
            t = heapex.mk_enum("OwnedTerm", "Pid", enum["Pid"], [heapex.OPAQUE("pid")])
        else:
            t = heapex.mk_enum("OwnedTerm", "Nil", enum["Nil"], [])
        return ok(it, rest, t)

    def cap(it, c, a):
        raise CapSite(a[0], c)

    def opaque(it, c, a):
        return heapex.OPAQUE("x")
    return [(r"nom::number::complete::be_u(8|16|32|64)::<", number), (r"nom::bytes::complete::take::<", take),
            (r"^<\{closure@nom::bytes::complete::take<.*as Fn(Mut|Once)?<\(&\[u8\],\)>>::call(_mut|_once)?$", take_call),
            (r"^parse_term$|^parse_term_from_tag$", parse_term), (r"Vec::<.*>::with_capacity$", cap),
            (r"nom::error::Error::<.*>::new$|ZlibDecoder::<.*>::new$", opaque)]


def run_fn(fname, code):
    fns, consts, enum = code
    name = "c02_capacity_site__%s" % fname
    t0 = time.time()
    if fname not in fns:
        return _rec(name, "INCONCLUSIVE", 0, notes=["function not found in the MIR dump"])
    sol = heapex.Solver(timeout_s=60)
    failures, npaths, sites = [], 0, 0
    try:
        sol.declare("hx_probe", "(_ BitVec 64)")
        sol.declare("in_len", "(_ BitVec 64)")
        sol.assume("(bvult in_len (_ bv1099511627776 64))")
        it = heapex.Interp(fns, consts, sol, lambda c: None, max_alloc=4)
        it.enums = {"OwnedTerm": enum}
        it.user_stubs = stubs(enum)
        work, seen = [[]], set()
        while work:
            prefix = work.pop()
            it.reset(prefix)
            npaths += 1
            if npaths > 2000:
                raise symex.Unsupported("more than 2000 paths")
            try:
                it.call_fn(fns[fname], [Val("slice", len="in_len"), heapex.OPAQUE("atom_cache")])
            except CapSite as cs:
                sites += 1
                n = cs.n
                wsyms = [k for k in it.path_syms if k.startswith("hx_wire")]
                want = ["in_len"] + wsyms
                r, m = sol.check(it.pc + ["(bvugt %s in_len)" % n.s, "(bvugt %s (_ bv65536 64))" % n.s], want_model=want)
                if r == "sat" and "L" not in seen:
                    seen.add("L")
                    wire = [m.get(k, 0) for k in wsyms]
                    ok, rr = replay(fname, m.get("in_len", 0), wire)
                    failures.append({"kind": "assert", "label": "L:capacity_request_exceeds_what_the_input_can_justify", "prop": name, "function": fname,
                                     "desc": "%s on %d input bytes with wire fields %s requests capacity beyond the input and beyond 65536 elements" % (fname, m.get("in_len", 0), wire),
                                     "values": [m.get("in_len", 0)] + wire, "replayed": ok, "replay_result": rr,
                                     "e2": {"capfn": fname, "in_len": m.get("in_len", 0), "wire": wire}})
                elif r not in ("sat", "unsat"):
                    raise symex.Unsupported("solver %s" % r)
            except heapex.Panic as e:
                pass      # panics of these parsers are the E1 part's subject
            except heapex.Infeasible:
                pass
            work.extend(it.pending)
        if sites == 0:
            return _rec(name, "VACUOUS", time.time() - t0, notes=["no path reaches a Vec::with_capacity call"])
        sample = {"function": fname, "paths": npaths, "paths_reaching_with_capacity": sites, "solver_queries": sol.queries,
                  "query": "exists input length, wire fields and nested-term outcomes: requested capacity > input length and > 65536"}
        return _rec(name, "FAIL" if failures else "PASS", time.time() - t0, failures=failures, sample=sample, solver_s=sol.seconds, queries=sol.queries, paths=npaths)
    except symex.Unsupported as e:
        return _rec(name, "INCONCLUSIVE", time.time() - t0, notes=["cannot encode: %s" % e], queries=sol.queries, paths=npaths)
    finally:
        sol.close()


def replay(fname, in_len, wire):
    from . import c16_replay
    b = c16_replay._binary()
    if b is None:
        return False, {"dev": (-1, "replay build failed")}
    try:
        p = subprocess.run([b, "capsite", fname] + [str(x) for x in wire], stdout=subprocess.PIPE, stderr=subprocess.STDOUT, text=True, timeout=120)
    except subprocess.TimeoutExpired:
        return False, {"dev": (-2, "timeout")}
    return p.returncode == 101, {"dev": (p.returncode, p.stdout[-400:])}


def run(out):
    t0 = time.time()
    try:
        code = load()
    except (mir.MirError, OSError, AttributeError) as e:
        out.append(_rec("c02_capacity_sites_encode", "INCONCLUSIVE", time.time() - t0, notes=["cannot dump/parse MIR: %s" % e]))
        return
    for f in FUNCS:
        r = run_fn(f, code)
        out.append(r)
        log("[C02] %-52s %-12s %6.1fs paths=%s queries=%s %s" % (r["harness"], r["status"], r["wall_s"], r.get("steps"), r.get("vccs"),
                                                              "; ".join(r.get("notes") or []) or ", ".join(x["label"] for x in r.get("failures", []))))
