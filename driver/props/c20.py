"""C20 — Elixir wrappers and proplist/map helpers convert back to what went in; range arithmetic."""
from ..e1 import Harness

PROP_ID = "C20"
FEATURE = "c20"
ENGINE = "E1 kani-cbmc + E2 mir-smt"
FUNCTIONS = ["edp_elixir_terms::ElixirRange::{is_empty,len,contains,into_iter}", "RangeIterator::{next,size_hint}",
             "E2: MIR of ElixirDate/ElixirTime/ElixirNaiveDateTime/ElixirDateTime::from_term (map lookups and accessors as environment stubs)",
             "E2 (stateful interpreter): MIR of erltf OwnedTerm::{proplist_to_map, map_to_proplist} + closure + boolean"]
ASSUMPTIONS = ["E2 wrappers: BTreeMap::get / as_integer / as_2_tuple / as_map / elixir_struct_module are environment stubs returning arbitrary presence "
               "and arbitrary i64 values; the claim is about what from_term does with them (narrowing casts), not about the map implementation",
               "E2 proplist/map helpers: BTreeMap<OwnedTerm,_> modelled as an association list keyed by structural equality (no Integer/Float or other "
               "cross-type Ord-equal keys in the shapes); atoms and binaries are 64-bit identity tokens; map iteration order is not modelled (laws compare sets)"]
OUTSIDE = ["exceptions, keyword/atom-key builders, derived struct mappings (string-heavy; no arithmetic)", "MapSet", "proplists longer than 3 elements, "
           "to_map_recursive / normalize_proplist / the typed proplist getters", "the wire trip of the wrappers"]
STEPS = {"any": 0, "p1": 1, "m1": -1, "p2": 2, "m3": -3, "p7": 7, "max": 9223372036854775807, "min": -9223372036854775808}


def bounds(tier):
    return {"range": "first, last, probe value: all i64; step: all i64 for overflow-freedom; agreement with the 128-bit "
                     "reference for step in %s (symbolic 128-bit division is out of CBMC's reach, see DESIGN)" % sorted(STEPS.values()),
            "iteration": "first 3 calls of next()",
            "proplist/map helpers": "every list of 1..2 (thorough: also 3 of a subset) elements over the classes {2-tuple keyed by atom / integer / binary / tuple, "
                                    "bare atom, integer, 3-tuple} with symbolic keys and values: proplist_to_map keeps exactly the last value per key, bare atoms "
                                    "become true, other elements are ignored; map -> proplist -> map is the identity on maps with such keys"}


def extra_checks(tier, seed):
    from . import c20_e2
    out = []
    c20_e2.run(out)
    from . import c20_props
    c20_props.run(tier, out)
    return out


def replay_case(case):
    from . import c20_e2
    e = case.get("e2") or {}
    if "wrapper" in e:
        return c20_e2.replay(e["wrapper"], e["args"])
    if "props" in e:
        from . import c20_props
        return c20_props.replay(e["props"], e["shape"], e["vals"])
    return None


def fn(name, body):
    return "#[cfg_attr(kani, kani::proof)]\npub fn %s() {\n%s\n    vk::reached();\n}\n" % (name, body)


def generate(tier, seed):
    src = ["use crate::c20::*;\nuse crate::vk;\n"]
    hs = []
    src.append(fn("c20_range_nopanic_anystep", "    range_no_panic(mk_range(0));"))
    hs.append(Harness("c20_range_nopanic_anystep", "len/contains/is_empty/next/size_hint never panic, all i64 first/last/step/value",
                      unwind=5, cap_s=300))
    for sn, sv in STEPS.items():
        for law in ("len", "contains", "iter"):
            if sn == "any" and law != "none":
                pass
            n = "c20_range_%s_step_%s" % (law, sn)
            src.append(fn(n, "    range_%s_agrees(mk_range(%d));" % (law, sv)))
            hs.append(Harness(n, "ElixirRange %s agrees with the 128-bit reference; step=%s, first/last%s all i64" % (
                law, "symbolic" if sv == 0 else sv, "/value" if law == "contains" else ""), unwind=5, cap_s=300))
    src.append(fn("c20_proplist_single_int_entry", "    proplist_single_int_entry();"))
    hs.append(Harness("c20_proplist_single_int_entry", "[{K,V}] with symbolic integer K,V -> proplist_to_map -> one entry K=>V -> map_to_proplist -> [{K,V}]",
                      unwind=6, cap_s=600, typed_heap=True, cuts=[r"InternalFun as std::clone::Clone", r"ExternalReference as std::clone::Clone",
                                                                  r"ExternalPid as std::clone::Clone", r"ExternalPort as std::clone::Clone",
                                                                  r"BigInt as std::clone::Clone", r"Bytes as std::clone::Clone"],
                      recursion=[(r"OwnedTerm as std::(clone::Clone>::clone|cmp::Ord>::cmp)", 1)]))
    src.append(fn("c20_date_roundtrip", "    date_roundtrip();"))
    hs.append(Harness("c20_date_roundtrip", "ElixirDate -> term -> ElixirDate for all i32 year, u8 month/day", unwind=4,
                      unwindset=[(r"Atom::new", 16), (r"^memcmp$", 24)], cap_s=600,
                      recursion=[(r"OwnedTerm as std::(cmp::Ord>::cmp|cmp::PartialEq>::eq)", 0)]))
    return "\n".join(src), hs
