"""C15 — serde round trip returns the original Rust value, also across the wire."""
from ..e1 import Harness
from . import c01

PROP_ID = "C15"
FEATURE = "c15"
ENGINE = "E1 kani-cbmc"
QUICK_MAX_S = 125
FUNCTIONS = ["erltf_serde::{to_term, from_term} instantiated at i8,i16,i32,i64,u8,u16,u32,u64,f32,f64,bool,char,(),Option<i64>,(i64,u8)",
             "ser.rs Serializer::serialize_*; de.rs Deserializer::deserialize_*", "wire: erltf::decode on the reference bytes of the value "
             "(C01 decides encode == reference) followed by from_term"]
ASSUMPTIONS = c01.ASSUMPTIONS + ["wire harnesses start from the reference encoding of the value's width class; that `to_bytes` emits "
                                 "exactly these bytes is decided by C01 (c01_enc__*) plus c15_toterm_*"]
OUTSIDE = ["to_term of a char (char::to_string is a symbolic-size allocation under CBMC; the deserialising side is decided on a String built with a concrete length)", "strings longer than 2 bytes, sequences, maps, structs, enums, nestings (BTreeMap/Vec-of-terms construction under CBMC)"]

INTS = [("i8", "vk::i8()"), ("i16", "vk::i16()"), ("i32", "vk::i32()"), ("i64", "vk::i64()"), ("u8", "vk::u8()"), ("u16", "vk::u16()"),
        ("u32", "vk::u32()")]
# (type, constraint on v, int_mode, digits): the width classes the encoder uses
WIRE = [
    ("i64", "v >= 0 && v <= 255", 10, 0, "small"), ("i64", "(v < 0 || v > 255) && v >= i32::MIN as i64 && v <= i32::MAX as i64", 11, 0, "i32"),
    ("i64", "v > i32::MAX as i64 && v < (1i64 << 32)", 12, 4, "w4pos"), ("i64", "v < i32::MIN as i64 && v >= -(1i64 << 32) + 1", 12, 4, "w4neg"),
    ("i64", "v >= (1i64 << 32) && v < (1i64 << 40)", 12, 5, "w5"), ("i64", "v >= (1i64 << 56)", 12, 8, "w8pos"),
    ("i64", "v <= -(1i64 << 56)", 12, 8, "w8neg"),
    ("u32", "v > i32::MAX as u32", 12, 4, "w4"), ("i32", "v < 0 || v > 255", 11, 0, "i32"),
]


def bounds(tier):
    return {"term level": [t for t, _ in INTS] + ["u64", "f32", "f64", "bool", "char", "()", "Option<i64>", "(i64,u8)"],
            "wire level": ["%s:%s" % (w[0], w[4]) for w in WIRE] + ["u64 >= 2^63 (8 digits)", "char of UTF-8 length 1..4"]}


def fn(name, body):
    return c01.STUBS + "#[cfg_attr(kani, kani::proof)]\npub fn %s() {\n%s\n    vk::reached();\n}\n" % (name, body)


def H(n, d, **kw):
    return Harness(n, d, unwind=10, unwindset=c01.UWS + [(r"^c15::", 12), (r"utf8|Chars|chars", 8)], cap_s=600, cuts=c01.CUTS_NOZ,
                   recursion=[(r"parse_term_from_tag|parse_term$|refetf::(accepts_at|denotes|emit)", 1)], **kw)


def generate(tier, seed):
    src = ["use crate::c15::*;\nuse crate::vk;\n"]
    hs = []
    for ty, ex in INTS:
        n = "c15_term__%s" % ty
        src.append(fn(n, "    term_rt::<%s>(%s);" % (ty, ex)))
        hs.append(H(n, "from_term(to_term(v)) == v for every %s" % ty))
        n = "c15_toterm__%s" % ty
        src.append(fn(n, "    to_term_denotes_int::<%s>(%s);" % (ty, ex)))
        hs.append(H(n, "to_term(v) denotes v for every %s" % ty))
    for n, body, d in [
        ("c15_term__u64", "    term_rt::<u64>(vk::u64());", "from_term(to_term(v)) == v for every u64 (>= 2^63 travels as BigInt)"),
        ("c15_term__f64", "    term_rt::<f64>(vk::f64_finite());", "every finite f64"),
        ("c15_term__f32", "    let f = vk::f32_bits(); vk::assume(!f.is_nan());\n    term_rt::<f32>(f);", "every non-NaN f32"),
        ("c15_term__bool", "    term_rt::<bool>(vk::bool());", "bool"),
        ("c15_term__char_string_len1", "    deser_char_string::<1>();", "from_term::<char> of the String term of every 1-byte char"),
        ("c15_term__char_string_len2", "    deser_char_string::<2>();", "from_term::<char> of the String term of every 2-byte char"),
        ("c15_term__char_string_len3", "    deser_char_string::<3>();", "from_term::<char> of the String term of every 3-byte char"),
        ("c15_term__char_string_len4", "    deser_char_string::<4>();", "from_term::<char> of the String term of every 4-byte char"),
        ("c15_term__unit", "    term_rt::<()>(());", "unit"),
        ("c15_term__option_i64", "    let v = if vk::bool() { Some(vk::i64()) } else { None };\n    term_rt::<Option<i64>>(v);", "Option<i64>"),
        ("c15_term__tuple", "    term_rt::<(i64, u8)>((vk::i64(), vk::u8()));", "(i64, u8)"),
    ]:
        src.append(fn(n, body))
        hs.append(H(n, "term level: " + d))
    for ty, cond, mode, digits, cls in WIRE:
        n = "c15_wire__%s_%s" % (ty, cls)
        src.append(fn(n, "    let v = vk::%s();\n    vk::assume(%s);\n    wire_int::<%s>(v, %d, %d);" % (ty, cond, ty, mode, digits)))
        hs.append(H(n, "wire: %s in class %s -> reference bytes -> decode -> from_term gives the value back" % (ty, cls)))
    for k in (1, 2, 3, 4):
        n = "c15_wire__char_utf8len%d" % k
        src.append(fn(n, "    wire_char::<%d>();" % k))
        hs.append(H(n, "wire: char with %d-byte UTF-8 -> binary -> decode -> from_term::<char>" % k))
    for n_el in (0, 1):
        for opt in (False, True):
            n = "c15_wire__%sseq_len%d" % ("option_" if opt else "", n_el)
            src.append(fn(n, "    wire_seq(%d, %s);" % (n_el, "true" if opt else "false")))
            hs.append(H(n, "wire: %s of %d element(s) (NIL_EXT / LIST_EXT) -> decode -> from_term gives it back; Some(empty) is not None"
                        % ("Option<Vec<u8>>" if opt else "Vec<u8>", n_el)))
            if opt and n_el == 0:
                hs[-1].force_quick = True      # ~205 s: the only harness that sees an empty sequence inside an Option over the wire (seed C15-m6)
    return "\n".join(src), hs
