"""C02 (E2/heapex part 2): the leaf parsers of both decoders never panic, whatever the input length and the wire fields.

Each listed parse_* function (owned and zero-copy copies) is executed from its MIR on an input slice of symbolic length and unknown
content, with nom's `be_u*`/`take` failing exactly when too few bytes remain and `str::from_utf8` succeeding or failing arbitrarily.
Decided: no MIR assert / slice-bound / `split_at` panic is feasible on any path.  A function whose MIR uses something outside the
interpreter's tables is *inconclusive* (exit 2), never silently skipped."""
import os
import re
import subprocess
import time

from ..e1 import WORK, REPO, TARGET, log
from mir_smt import mir, symex, heapex
from . import c02_caps

Val, BV = symex.Val, symex.BV
FUNCS = ["parse_binary", "parse_binary_borrowed", "parse_bit_binary", "parse_bit_binary_borrowed", "parse_string_ext", "parse_string_ext_borrowed",
         "parse_small_big", "parse_small_big_borrowed", "parse_large_big", "parse_large_big_borrowed", "parse_atom_utf8", "parse_atom_utf8_borrowed",
         "parse_small_atom_utf8", "parse_small_atom_utf8_borrowed", "parse_atom_latin1", "parse_atom_latin1_borrowed", "parse_small_atom_latin1",
         "parse_small_integer", "parse_small_integer_borrowed", "parse_integer", "parse_integer_borrowed", "parse_new_float", "parse_new_float_borrowed"]
TAGBYTE = {"parse_binary": 109, "parse_bit_binary": 77, "parse_string_ext": 107, "parse_small_big": 110, "parse_large_big": 111, "parse_atom_utf8": 118,
           "parse_small_atom_utf8": 119, "parse_atom_latin1": 100, "parse_small_atom_latin1": 115, "parse_small_integer": 97, "parse_integer": 98, "parse_new_float": 70}


def extra_stubs():
    def split_at(it, c, a):
        s, mid = it.deref(a[0]), a[1]
        if s.kind != "slice":
            raise symex.Unsupported("split_at on " + s.kind)
        ok = it.fold(symex.BOOL("(bvule %s %s)" % (mid.s, s.len))).s
        if not it.branch(ok, "split_at: mid <= len"):
            raise heapex.Panic("panic: split_at: mid > len")
        return Val("struct", name="(tuple)", fields=[Val("slice", len=mid.s), Val("slice", len=it.fold(BV(64, "(bvsub %s %s)" % (s.len, mid.s))).s)])

    def range_to(it, c, a):
        s, rg = it.deref(a[0]), a[1]
        end = rg.fields[-1]
        if s.kind != "slice":
            raise symex.Unsupported("range index on " + s.kind)
        ok = it.fold(symex.BOOL("(bvule %s %s)" % (end.s, s.len))).s
        if not it.branch(ok, "slice end bound"):
            raise heapex.Panic("panic: range end index out of range for slice")
        if "RangeFrom" in c:
            return Val("slice", len=it.fold(BV(64, "(bvsub %s %s)" % (s.len, end.s))).s)
        return Val("slice", len=end.s)

    def from_utf8(it, c, a):
        sel = it.fresh("utf8_ok", "Bool")
        if it.branch(sel, "from_utf8 outcome"):
            return heapex.mk_enum("Result", "Ok", 0, [a[0]])
        return heapex.mk_enum("Result", "Err", 1, [heapex.OPAQUE("utf8error")])

    def opaque(it, c, a):
        return heapex.OPAQUE("x")

    def ident(it, c, a):
        return a[0]

    def map_err(it, c, a):
        r = a[0]
        return r if r.idx == 0 else heapex.mk_enum("Result", "Err", 1, [heapex.OPAQUE("mapped")])

    def fresh_num(w):
        def f(it, c, a):
            return BV(w, it.fresh("num", "(_ BitVec %d)" % w))
        return f
    def is_ascii(it, c, a):
        return symex.BOOL(it.fresh("is_ascii", "Bool"))

    def byte_iter(it, c, a):
        # iterator chains over the (unknown) payload bytes are not executed: their result is opaque
        if it.deref(a[0]).kind in ("slice", "opaque"):
            return heapex.OPAQUE("byte_iter")
        return None
    return [(r"slice::ascii::<impl \[u8\]>::is_ascii$|core::str::<impl str>::is_ascii$", is_ascii),
            (r"slice::<impl \[u8\]>::iter$| as Iterator>::(map|copied|cloned)::<| as Iterator>::collect::<", byte_iter),
            (r"slice::<impl \[u8\]>::split_at$", split_at), (r"<\[u8\] as Index<(std::ops::)?Range(To|From)<usize>>>::index$", range_to),
            (r"core::str::converts::from_utf8$|std::str::from_utf8$|^from_utf8$", from_utf8), (r"Result::<.*>::map_err::<", map_err),
            (r"Atom::new::<|latin1_to_string$|Cow::<.*>::(Borrowed|Owned)|slice::<impl \[u8\]>::to_vec$|BigInt::new|String::from_utf8_lossy|<str as ToOwned>::to_owned$|as Into<.*>>::into$|<Cow<'_, str> as From<.*>>::from$", opaque),
            (r"f64::from_bits$|core::f64::<impl f64>::from_bits$", fresh_num(64)), (r"nom::number::complete::be_i32::<", None),
            (r"nom::number::complete::be_f64::<", None)]


def run_fn(fname, code):
    fns, consts, enum = code
    name = "c02_leaf_never_panics__%s" % fname
    t0 = time.time()
    if fname not in fns:
        return c02_caps._rec(name, "INCONCLUSIVE", 0, notes=["function not found in the MIR dump"])
    sol = heapex.Solver(timeout_s=60)
    failures, npaths, done = [], 0, 0
    try:
        sol.declare("hx_probe", "(_ BitVec 64)")
        sol.declare("in_len", "(_ BitVec 64)")
        sol.assume("(bvult in_len (_ bv1099511627776 64))")
        it = heapex.Interp(fns, consts, sol, lambda c: None, max_alloc=4)
        it.enums = {"OwnedTerm": enum}
        base = c02_caps.stubs(enum)
        number = base[0][1]

        def signed_or_float(it_, c, a):
            c2 = c.replace("be_i32", "be_u32").replace("be_f64", "be_u64")
            return number(it_, c2, a)
        extra = [(rx, f if f is not None else signed_or_float) for rx, f in extra_stubs()]
        it.user_stubs = extra + [x for x in base if "with_capacity" not in x[0]] + [(r"Vec::<.*>::with_capacity$", lambda i, c, a: Val("vec", items=[]))]
        work, seen = [[]], set()
        while work:
            prefix = work.pop()
            it.reset(prefix)
            npaths += 1
            if npaths > 500:
                raise symex.Unsupported("more than 500 paths")
            fail = None
            try:
                n_params = len(re.findall(r"_\d+: ", fns[fname].header.split(") ->")[0]))
                args = [Val("slice", len="in_len")] + [heapex.OPAQUE("ctx") for _ in range(n_params - 1)]
                it.call_fn(fns[fname], args)
                done += 1
            except heapex.Panic as e:
                wsyms = [k for k in it.path_syms if k.startswith("hx_wire")]
                st, m = sol.check(it.pc, want_model=["in_len"] + wsyms)
                fail = ("L:panics:" + re.sub(r"[^A-Za-z0-9]+", "_", str(e))[:60], m or {}, wsyms)
            except heapex.Infeasible:
                pass
            except (AttributeError, KeyError, TypeError, IndexError) as e:
                raise symex.Unsupported("interpreter: %s: %s" % (type(e).__name__, e))
            work.extend(it.pending)
            if fail and fail[0] not in seen:
                seen.add(fail[0])
                lab, m, wsyms = fail
                wire = [m.get(k, 0) for k in wsyms]
                ok, rr = replay(fname, m.get("in_len", 0), wire)
                failures.append({"kind": "assert", "label": lab, "prop": name, "function": fname,
                                 "desc": "%s on %d input bytes with wire fields %s" % (fname, m.get("in_len", 0), wire), "values": [m.get("in_len", 0)] + wire,
                                 "replayed": ok, "replay_result": rr, "e2": {"leaffn": fname, "in_len": m.get("in_len", 0), "wire": wire}})
        if done == 0 and not failures:
            return c02_caps._rec(name, "VACUOUS", time.time() - t0, notes=["no path ran to the end"])
        sample = {"function": fname, "paths": npaths, "solver_queries": sol.queries, "query": "exists input length and wire fields: a panic (slice bound, split_at, arithmetic) is reachable"}
        return c02_caps._rec(name, "FAIL" if failures else "PASS", time.time() - t0, failures=failures, sample=sample, solver_s=sol.seconds, queries=sol.queries, paths=npaths)
    except symex.Unsupported as e:
        return c02_caps._rec(name, "INCONCLUSIVE", time.time() - t0, notes=["cannot encode: %s" % e], queries=sol.queries, paths=npaths)
    finally:
        sol.close()


def replay(fname, in_len, wire):
    """native: [131, tag, first wire field (as the length field), min(in_len - field width, 64) filler bytes] through decode or decode_borrowed"""
    from . import c16_replay
    b = c16_replay._binary()
    if b is None:
        return False, {"dev": (-1, "replay build failed")}
    base = fname.replace("_borrowed", "")
    tag = TAGBYTE.get(base)
    if tag is None:
        return False, {"dev": (-3, "no native input recipe for " + fname)}
    try:
        p = subprocess.run([b, "leaf", "borrowed" if fname.endswith("_borrowed") else "owned", str(tag), str(in_len)] + [str(x) for x in wire],
                           stdout=subprocess.PIPE, stderr=subprocess.STDOUT, text=True, timeout=60)
    except subprocess.TimeoutExpired:
        return False, {"dev": (-2, "timeout")}
    return p.returncode == 101, {"dev": (p.returncode, p.stdout[-300:])}


def load():
    mdir = os.path.join(WORK, "mir")
    path = os.path.join(mdir, "erltf.mir")
    text = open(path).read()       # dumped by c02_caps.load() in the same run
    fns = {f.name: f for f in mir.parse_functions(text, r"^fn (%s)\(" % "|".join(FUNCS))}
    src = open(os.path.join(REPO, "crates", "erltf", "src", "term.rs")).read()
    m = re.search(r"pub enum OwnedTerm \{(.*?)\n\}", src, re.S)
    enum = {v: i for i, v in enumerate(re.findall(r"^\s{4}(\w+)\s*[\({,]", m.group(1), re.M))}
    return fns, symex.parse_consts(text), enum


def run(out):
    t0 = time.time()
    try:
        code = load()
    except (mir.MirError, OSError, AttributeError) as e:
        out.append(c02_caps._rec("c02_leaf_encode", "INCONCLUSIVE", time.time() - t0, notes=["cannot parse MIR: %s" % e]))
        return
    for f in FUNCS:
        r = run_fn(f, code)
        out.append(r)
        if r["status"] != "PASS":
            log("[C02] %-52s %-12s %6.1fs %s" % (r["harness"], r["status"], r["wall_s"], "; ".join(r.get("notes") or []) or ", ".join(x["label"] for x in r.get("failures", []))))
    log("[C02] leaf parsers never panic: %d functions, %.1fs" % (len(FUNCS), time.time() - t0))
