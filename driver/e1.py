"""E1: Kani front end + CBMC back end, driven per harness.

The real crates under /repo/crates are compiled by Kani's compiler (path dependencies of
/verif/harness), kani-driver's goto-cc / goto-instrument steps are replicated here, three
goto-level transformations are applied (DESIGN 2.2), and CBMC + CaDiCaL decides each harness.
"""
import fcntl
import json
import os
import re
import shutil
import subprocess
import sys
import time
from concurrent.futures import ThreadPoolExecutor

VERIF = os.path.dirname(os.path.dirname(os.path.abspath(__file__)))
# VERIF_REPO=<dir>: check a different copy of the repository (used to try seeded changes in a scratch
# worktree while /repo itself stays untouched).  Everything mutable then lives under /verif/.alt/.
REPO = os.environ.get("VERIF_REPO", "/repo").rstrip("/")
ALT = REPO != "/repo"
_ROOT = os.path.join(VERIF, ".alt") if ALT else VERIF
HARNESS = os.path.join(_ROOT, "harness")
TARGET = os.path.join(_ROOT, ".target")
WORK = os.path.join(_ROOT, ".work")
REPLAY_TARGET = os.path.join(_ROOT, ".target-replay")
REPLAY_C16 = os.path.join(_ROOT, "replay_c16")


def _sync_alt():
    """mirror harness/ and replay_c16/ into .alt/ with the path dependencies pointing at REPO"""
    for d in ("harness", "replay_c16"):
        src, dst = os.path.join(VERIF, d), os.path.join(_ROOT, d)
        os.makedirs(dst, exist_ok=True)
        subprocess.run(["rsync", "-a", "--delete", "--exclude", "target", "--exclude", "src/gen", src + "/", dst + "/"], check=True)
        os.makedirs(os.path.join(dst, "src", "gen"), exist_ok=True)
        ct = os.path.join(dst, "Cargo.toml")
        t = open(ct).read().replace('"/repo/crates/', '"%s/crates/' % REPO)
        open(ct, "w").write(t)


if ALT:
    os.makedirs(_ROOT, exist_ok=True)
    _sync_alt()
KANI_HOME = os.path.expanduser("~/.kani/kani-0.68.0")
KANI_LIB_C = os.path.join(KANI_HOME, "library/kani/kani_lib.c")
VERIF_LIB_C = os.path.join(HARNESS, "verif_lib.c")
VERIF_LIB_TYPED_C = os.path.join(HARNESS, "verif_lib_typed.c")
VERIF_LIB_CAP_C = os.path.join(HARNESS, "verif_lib_cap.c")

ENV = dict(os.environ, CARGO_NET_OFFLINE="true")
ENV.pop("RUSTUP_TOOLCHAIN", None)

# Destructors elided at goto level (T1).  Matched against Kani's pretty names.
# Only destructors that *free memory of plain data* are elided.  Anything whose Drop has an
# observable effect (SetLenOnDrop, scope guards, closures that capture such guards, locks,
# channels, Drain/InPlace helpers) is explicitly excluded — eliding `SetLenOnDrop::drop`
# would leave `Vec::extend`/`collect` results with length 0.
_DATA = (r"(erltf::|erltf_serde::|edp_client::|edp_elixir_terms::|terms::RV|bytes::Bytes|bytes::BytesMut|std::string::String|"
         r"std::vec::Vec<|std::boxed::Box<|std::sync::Arc<|std::collections::BTreeMap<|std::borrow::Cow<|std::io::Error|"
         r"std::io::error|nom::|std::option::Option<|std::result::Result<|\(|\[)")
T1_DEFAULT = [
    r"^std::ptr::drop_(in_place|glue)::<%s.*>$" % _DATA,
    r"^<(std::vec::Vec<|alloc::raw_vec::RawVec|std::boxed::Box<|std::sync::Arc<|std::collections::BTreeMap<|"
    r"alloc::collections::btree::|bytes::|std::vec::IntoIter<|alloc::sync::).* as std::ops::Drop>::drop$",
]
T1_NEVER = r"closure|Guard|SetLenOnDrop|Drain|Dropper|InPlace|Hole|Mutex|RwLock|Lock|oneshot|mpsc|Notify|Waker|Sender|Receiver|Fill|Merge|CopyOnDrop|InsertionHole"

CBMC_BASE = [
    "cbmc", "--no-malloc-may-fail", "--no-undefined-shift-check", "--no-signed-overflow-check",
    "--no-bounds-check", "--no-pointer-check", "--nan-check", "--no-self-loops-to-assumptions",
    "--no-pointer-primitive-check", "--object-bits", "16", "--sat-solver", "cadical",
    "--slice-formula", "--unwinding-assertions",
]


class Harness:
    """One solver query: a #[kani::proof] function of concrete shape with symbolic values."""

    def __init__(self, name, desc, unwind=None, unwindset=None, cuts=None, t1=True, t1_extra=None,
                 cap_s=120, mem_gb=10, sample=None, alloc_cap=False, nontrivial=True, keep_drop=None,
                 pointer_checks=False, group=None, recursion=None, typed_heap=False):
        self.name = name
        self.desc = desc
        self.unwind = unwind
        self.unwindset = unwindset or []   # [(pretty-name regex, bound)]
        self.cuts = cuts or []             # pretty-name regexes: body := assert(false);assume(false)
        self.t1 = t1
        self.t1_extra = t1_extra or []
        self.keep_drop = keep_drop or []   # regexes exempted from T1
        self.cap_s = cap_s
        self.mem_gb = mem_gb
        self.sample = sample if sample is not None else {"harness": name, "what": desc}
        self.alloc_cap = alloc_cap
        self.nontrivial = nontrivial
        self.pointer_checks = pointer_checks
        self.group = group or name
        self.recursion = recursion or []   # [(pretty-name regex, max recursion depth)]
        self.typed_heap = typed_heap       # T4: word-typed heap objects (keeps enum niches constant; slow for union-heavy values)


def sh(cmd, **kw):
    return subprocess.run(cmd, stdout=subprocess.PIPE, stderr=subprocess.STDOUT, text=True, **kw)


LOGF = None


def log(*a):
    print(*a, file=sys.stderr, flush=True)
    if LOGF:
        print(*a, file=LOGF, flush=True)


class BuildError(Exception):
    pass


NSLOTS = int(os.environ.get("VERIF_BUILD_SLOTS", "6"))


def _slot_dir(k):
    return os.path.join(TARGET, "slot%d" % k)


def ensure_slots(n):
    """slot0 is built by setup; further slots are copies (cargo fingerprints are path-independent here)."""
    os.makedirs(TARGET, exist_ok=True)
    for k in range(1, n):
        d = _slot_dir(k)
        if not os.path.isdir(d) and os.path.isdir(_slot_dir(0)):
            sh(["cp", "-a", _slot_dir(0), d])


def _build_chunk(feature, chunk, slot, extra_rustflags):
    tdir = _slot_dir(slot)
    os.makedirs(tdir, exist_ok=True)
    lock = open(os.path.join(tdir, ".verif.lock"), "w")
    fcntl.flock(lock, fcntl.LOCK_EX)
    try:
        out_root = os.path.join(tdir, "kani/x86_64-unknown-linux-gnu/debug/build/edp_verif_harness")
        shutil.rmtree(out_root, ignore_errors=True)
        cmd = ["cargo", "kani", "-Z", "stubbing", "--only-codegen", "--target-dir", tdir,
               "--features", feature, "--exact", "--lib"]
        for n in chunk:
            cmd += ["--harness", "gen_%s::%s" % (feature, n)]
        env = dict(ENV)
        rf = "--cfg edp_rs_verif " + extra_rustflags
        env["RUSTFLAGS"] = (env.get("RUSTFLAGS", "") + " " + rf).strip()
        t0 = time.time()
        p = sh(cmd, cwd=HARNESS, env=env)
        log(f"[build] {feature}: slot {slot}: {len(chunk)} harnesses codegen in {time.time()-t0:.1f}s rc={p.returncode}")
        if p.returncode != 0:
            raise BuildError(p.stdout[-6000:])
        metas = []
        for root, _d, files in os.walk(out_root):
            for f in files:
                if f.endswith(".kani-metadata.json"):
                    metas.append(os.path.join(root, f))
        if not metas:
            raise BuildError("no kani metadata produced\n" + p.stdout[-3000:])
        res = {}
        dst = os.path.join(WORK, feature, "symtabs")
        os.makedirs(dst, exist_ok=True)
        for mf in metas:
            for h in json.load(open(mf)).get("proof_harnesses", []):
                nm = h["pretty_name"].split("::")[-1]
                if nm not in chunk:
                    continue
                g = h["goto_file"]
                if not os.path.exists(g):
                    continue
                d = os.path.join(dst, nm + ".symtab.out")
                shutil.copyfile(g, d)
                dpm = os.path.join(dst, nm + ".pretty.json")
                shutil.copyfile(g.replace(".symtab.out", ".pretty_name_map.json"), dpm)
                res[nm] = (d, h["mangled_name"], dpm)
        shutil.rmtree(out_root, ignore_errors=True)
        return res
    finally:
        fcntl.flock(lock, fcntl.LOCK_UN)
        lock.close()


def build(feature, names, extra_rustflags=""):
    """cargo kani --only-codegen for the given harnesses, in parallel build slots.
    Returns {name: (symtab, mangled, prettymap)}."""
    os.makedirs(WORK, exist_ok=True)
    nslots = max(1, min(NSLOTS, (len(names) + 7) // 8))
    ensure_slots(nslots)
    chunks = [names[k::nslots] for k in range(nslots)]
    res = {}
    with ThreadPoolExecutor(max_workers=nslots) as ex:
        futs = [ex.submit(_build_chunk, feature, ch, k, extra_rustflags) for k, ch in enumerate(chunks) if ch]
        for f in futs:
            res.update(f.result())
    missing = [n for n in names if n not in res]
    if missing:
        raise BuildError("harnesses not produced by codegen: %s" % missing[:10])
    return res


def _limit(mem_gb):
    import resource

    def f():
        b = int(mem_gb * (1 << 30))
        resource.setrlimit(resource.RLIMIT_AS, (b, b))
        os.setsid()
    return f


def _match_any(regexes, s):
    return any(re.search(r, s) for r in regexes)


def prepare(h, symtab, mangled, prettymap, wd):
    """goto-cc link + kani-driver's instrumentation + T1/T2/T3.  Returns (goto path, info)."""
    os.makedirs(wd, exist_ok=True)
    g = os.path.join(wd, "h.goto")
    lib = VERIF_LIB_CAP_C if h.alloc_cap else (VERIF_LIB_TYPED_C if h.typed_heap else VERIF_LIB_C)
    if h.typed_heap == "big":
        lib = os.path.join(HARNESS, "verif_lib_typed_big.c")
    steps = [
        ["goto-cc", symtab, lib, "-o", g],
        ["goto-cc", g, "--function", mangled, "-o", g],
        ["goto-instrument", "--add-library", "--no-malloc-may-fail", g, g],
        ["goto-instrument", "--generate-function-body-options", "assert-false-assume-false",
         "--generate-function-body", ".*", "--drop-unused-functions", g, g],
        ["goto-instrument", "--ensure-one-backedge-per-target", g, g],
    ]
    for c in steps:
        p = sh(c)
        if p.returncode != 0:
            raise BuildError("%s\n%s" % (" ".join(c), p.stdout[-3000:]))
    pm = json.load(open(prettymap))  # mangled -> pretty
    if isinstance(pm, list):
        pm = dict(pm)
    p = sh(["goto-instrument", "--list-goto-functions", "--json-ui", g])
    present = set()
    try:
        txt = p.stdout
        j = json.loads(txt[txt.index("["):])
        for item in j:
            if isinstance(item, dict) and "functions" in item:
                for f in item["functions"]:
                    if f.get("isBodyAvailable", True):
                        present.add(f["name"])
    except Exception:
        pass
    info = {"t1_removed": [], "cuts": []}
    removed = []
    cut = []
    for m in sorted(present):
        pretty = pm.get(m, m)
        if h.cuts and _match_any(h.cuts, pretty):
            cut.append(m)
            info["cuts"].append(pretty)
        elif (h.t1 and _match_any(T1_DEFAULT + h.t1_extra, pretty) and not re.search(T1_NEVER, pretty)
              and not _match_any(h.keep_drop, pretty)):
            removed.append(m)
            info["t1_removed"].append(pretty)
    def remove_bodies(ms, what):
        chunk, size = [], 0
        for m in ms + [None]:
            if m is None or size + len(m) > 60000:
                if chunk:
                    c = ["goto-instrument"]
                    for x in chunk:
                        c += ["--remove-function-body", x]
                    p = sh(c + [g, g])
                    if p.returncode != 0:
                        raise BuildError(what + " failed: " + p.stdout[-2000:])
                chunk, size = [], 0
            if m is not None:
                chunk.append(m)
                size += len(m) + 30

    # T2 first: cut bodies := assert(false); assume(false)  (every body-less function at this point is a cut)
    if cut:
        remove_bodies(cut, "T2 remove")
        p = sh(["goto-instrument", "--generate-function-body-options", "assert-false-assume-false",
                "--generate-function-body", ".*", g, g])
        if p.returncode != 0:
            raise BuildError("T2 generate failed: " + p.stdout[-2000:])
    # T1 afterwards: destructor bodies removed and left body-less (= no-op in CBMC)
    if removed:
        remove_bodies(removed, "T1 remove")
    info["cut_mangled"] = cut
    # resolve unwindset
    uws = []
    if h.unwindset:
        p = sh(["cbmc", "--show-loops", "--json-ui", g])
        try:
            txt = p.stdout
            j = json.loads(txt[txt.index("["):])
            for item in j:
                if isinstance(item, dict) and "loops" in item:
                    for lp in item["loops"]:
                        name = lp["name"]
                        fn = name.rsplit(".", 1)[0]
                        pretty = pm.get(fn, fn)
                        for rx, b in h.unwindset:
                            if re.search(rx, pretty):
                                uws.append("%s:%d" % (name, b))
                                break
        except Exception as e:
            log("[warn] show-loops parse failed", e)
    for m in sorted(present):
        pretty = pm.get(m, m)
        for rx, b in h.recursion:
            if re.search(rx, pretty):
                uws.append("%s:%d" % (m, b))
                break
    info["unwindset"] = uws
    return g, info


def cbmc_cmd(h, g, info, trace=False):
    c = list(CBMC_BASE)
    if h.pointer_checks:
        c = [x for x in c if x not in ("--no-bounds-check", "--no-pointer-check")]
    if h.unwind is not None:
        c += ["--unwind", str(h.unwind)]
    if info["unwindset"]:
        c += ["--unwindset", ",".join(info["unwindset"])]
    if h.typed_heap == "big":
        c += ["--max-field-sensitivity-array-size", "512"]
    if trace:
        c += ["--trace"]
    c += [g, "--json-ui", "--verbosity", "8"]
    return c


def parse_cbmc(txt):
    """Returns dict(results=[...], stats={...}, status=...)."""
    out = {"results": None, "vccs": None, "vccs_remaining": None, "steps": None, "solver_s": 0.0,
           "variables": None, "clauses": None, "cprover_status": None, "errors": []}
    try:
        j = json.loads(txt)
    except Exception:
        # truncated output (killed): try to salvage nothing
        out["errors"].append("unparseable cbmc output")
        return out
    for item in j:
        if not isinstance(item, dict):
            continue
        if "messageText" in item:
            mt = item["messageText"]
            m = re.search(r"Generated (\d+) VCC\(s\), (\d+) remaining", mt)
            if m:
                out["vccs"] = int(m.group(1))
                out["vccs_remaining"] = int(m.group(2))
            m = re.search(r"size of program expression: (\d+) steps", mt)
            if m:
                out["steps"] = int(m.group(1))
            m = re.search(r"(\d+) variables, (\d+) clauses", mt)
            if m:
                out["variables"] = int(m.group(1))
                out["clauses"] = int(m.group(2))
            m = re.search(r"Runtime Solver: ([0-9.e+-]+)s", mt)
            if m:
                out["solver_s"] += float(m.group(1))
            if "Running propositional reduction" in mt:
                out["sat_calls"] = out.get("sat_calls", 0) + 1
            if item.get("messageType") == "ERROR":
                out["errors"].append(mt)
        if "result" in item:
            out["results"] = item["result"]
        if "cProverStatus" in item:
            out["cprover_status"] = item["cProverStatus"]
    return out


REACH_DESC = "VERIF_REACHED"


def classify(h, parsed, info, pm):
    """Returns (status, failures[list of dict(label, prop, desc, function)], notes)."""
    if parsed["results"] is None:
        return "INCONCLUSIVE", [], ["no result section: " + "; ".join(parsed["errors"][:2])]
    fails = []
    reached = False
    unwind_fail = False
    uw_loops = []
    cut_reached = []
    cutset = set(info.get("cut_mangled", []))
    for r in parsed["results"]:
        prop = r.get("property", "")
        desc = clean_desc(r.get("description", ""))
        st = r.get("status")
        fn = (r.get("sourceLocation") or {}).get("function", "")
        if REACH_DESC in desc:
            if st == "FAILURE":   # Kani cover: "FAILURE" of assert(!true) == reachable
                reached = True
            continue
        if ".reachability_check." in prop or "cover" == prop.split(".")[-2:-1]:
            continue
        if st != "FAILURE":
            continue
        if "unwinding assertion" in desc or ".unwind." in prop or "recursion unwinding" in desc:
            unwind_fail = True
            uw_loops.append(pm.get(prop.split(".unwind.")[0].split(".recursion")[0], prop))
            continue
        fnm = prop.rsplit(".", 2)[0] if prop.count(".") >= 2 else fn
        if ".no-body." in prop or "no body" in desc:
            # function without body called.  T1 functions are expected; others are a modelling gap
            callee = desc.split("callee", 1)[-1].strip()
            if any(x in callee for x in ("drop_in_place", "drop_glue")) or _match_any(T1_DEFAULT + h.t1_extra, callee):
                continue
            fails.append({"kind": "nobody", "label": "no-body:" + desc[:120], "prop": prop, "desc": desc,
                          "function": fn})
            continue
        if fn in cutset or fnm in cutset or "assert_false" in prop and (fnm in cutset):
            cut_reached.append(pm.get(fnm, fnm))
            continue
        if "unsupported_construct" in prop or "is not currently supported by Kani" in desc:
            fails.append({"kind": "unsupported", "label": "unsupported:" + desc[:100], "prop": prop,
                          "desc": desc, "function": fn})
            continue
        pretty_fn = pm.get(fn, fn)
        pretty_fn = re.sub(r"::\{closure#\d+\}", "", pretty_fn)
        fails.append({"kind": "assert", "label": label_of(desc, pretty_fn), "prop": prop, "desc": desc,
                      "function": pretty_fn})
    notes = []
    real = [f for f in fails if f["kind"] == "assert"]
    gaps = [f for f in fails if f["kind"] != "assert"]
    if real:
        return "FAIL", real, notes
    if gaps:
        return "INCONCLUSIVE", [], ["modelling gap reachable: " + gaps[0]["label"]]
    if cut_reached:
        return "INCONCLUSIVE", [], ["T2 cut reached: " + ", ".join(sorted(set(cut_reached))[:3])]
    if unwind_fail:
        return "INCONCLUSIVE", [], ["unwinding assertion failed (bound too small): " + ", ".join(sorted(set(uw_loops))[:4])]
    if not reached:
        return "VACUOUS", [], ["vacuity witness VERIF_REACHED not reachable"]
    return "PASS", [], notes


def clean_desc(d):
    m = re.match(r'^\[KANI_CHECK_ID_[^\]]*\]\s*(.*)$', d, re.S)
    if m:
        d = m.group(1)
    d = d.strip()
    if len(d) >= 2 and d[0] == '"' and d[-1] == '"':
        d = d[1:-1]
    return d


def label_of(desc, fn):
    """Role key of a failing check: harness assertion label, or panic kind @ function."""
    d = desc.strip()
    if d.startswith("L:"):       # harness assertion labels start with L:
        return d.split()[0]
    d = re.sub(r"\s+", " ", d)[:80]
    return "%s@%s" % (d, fn)


def run_one(h, built, prop_id, tier):
    try:
        return _run_one(h, built, prop_id, tier)
    except Exception as e:  # never crash the whole check: an exception is an inconclusive query
        import traceback
        return {"harness": h.name, "desc": h.desc, "status": "INCONCLUSIVE", "wall_s": 0.0,
                "notes": ["driver exception: %s" % traceback.format_exc()[-600:]]}


def _run_one(h, built, prop_id, tier):
    symtab, mangled, prettymap = built[h.name]
    wd = os.path.join(WORK, prop_id, h.name)
    shutil.rmtree(wd, ignore_errors=True)
    t0 = time.time()
    rec = {"harness": h.name, "desc": h.desc, "status": None, "wall_s": 0.0}
    try:
        g, info = prepare(h, symtab, mangled, prettymap, wd)
    except BuildError as e:
        rec.update(status="INCONCLUSIVE", notes=["prepare failed: " + str(e)[-500:]])
        return rec
    pm = json.load(open(prettymap))
    if isinstance(pm, list):
        pm = dict(pm)
    cmd = cbmc_cmd(h, g, info)
    rec["cmd"] = " ".join(cmd)
    open(os.path.join(wd, "cmd.txt"), "w").write(" ".join("'%s'" % c for c in cmd) + "\n")
    try:
        p = subprocess.Popen(cmd, stdout=subprocess.PIPE, stderr=subprocess.PIPE, text=True,
                             preexec_fn=_limit(h.mem_gb))
        try:
            so, se = p.communicate(timeout=h.cap_s)
        except subprocess.TimeoutExpired:
            try:
                os.killpg(p.pid, 9)
            except Exception:
                p.kill()
            p.communicate()
            rec.update(status="INCONCLUSIVE", notes=["timeout after %ds" % h.cap_s],
                       wall_s=time.time() - t0, info=info)
            return rec
    except Exception as e:
        rec.update(status="INCONCLUSIVE", notes=["cbmc launch failed: %s" % e])
        return rec
    open(os.path.join(wd, "cbmc.json"), "w").write(so)
    parsed = parse_cbmc(so)
    if p.returncode not in (0, 10):
        rec.update(status="INCONCLUSIVE", notes=["cbmc exit %d (OOM/abort) %s" % (p.returncode, (se or "")[-200:])],
                   wall_s=time.time() - t0, info=info)
        return rec
    status, fails, notes = classify(h, parsed, info, pm)
    rec.update(status=status, failures=fails, notes=notes, wall_s=time.time() - t0,
               vccs=parsed["vccs"], vccs_remaining=parsed["vccs_remaining"], steps=parsed["steps"],
               variables=parsed["variables"], clauses=parsed["clauses"], solver_s=parsed["solver_s"], sat_calls=parsed.get("sat_calls", 0),
               info={"t1_removed": len(info["t1_removed"]), "cuts": info["cuts"], "unwindset": info["unwindset"]},
               goto=g)
    rec["_h"] = h
    rec["_info"] = info
    if status == "PASS" and not os.environ.get("VERIF_KEEP_WORK"):
        # disk: the goto binary and CBMC's JSON log (tens of MB per harness) are only needed to extract a trace from a failure
        for f in os.listdir(wd):
            if f != "cmd.txt":
                try:
                    os.remove(os.path.join(wd, f))
                except OSError:
                    pass
    return rec


def extract_trace(h, rec, fail):
    """Re-run CBMC with --trace on one failing property; return the list of kani::any values (u64)."""
    g = rec["goto"]
    info = rec["_info"]
    cmd = cbmc_cmd(h, g, info, trace=True)
    # without formula slicing every kani::any() assignment appears in the trace, in call order
    cmd = [c for c in cmd if c != "--slice-formula"]
    cmd.insert(1, "--property")
    cmd.insert(2, fail["prop"])
    try:
        p = subprocess.run(cmd, stdout=subprocess.PIPE, stderr=subprocess.PIPE, text=True,
                           timeout=max(h.cap_s * 2, 240), preexec_fn=_limit(max(h.mem_gb * 3, 30)))
    except subprocess.TimeoutExpired:
        log("[trace] %s: trace run timed out" % h.name)
        return None
    try:
        j = json.loads(p.stdout)
    except Exception:
        log("[trace] %s: trace run exit %s, output not JSON (%d bytes) %s" % (h.name, p.returncode, len(p.stdout or ""), (p.stderr or "")[-300:]))
        return None
    vals = []
    saw_trace = False
    for item in j:
        if not isinstance(item, dict) or "result" not in item:
            continue
        for r in item["result"]:
            if r.get("property") != fail["prop"] or "trace" not in r:
                continue
            saw_trace = True
            for st in r["trace"]:
                if st.get("stepType") != "assignment":
                    continue
                lhs = st.get("lhs", "")
                fn = (st.get("sourceLocation") or {}).get("function", "")
                v = st.get("value") or {}
                if lhs.startswith("goto_symex$$return_value") and "any_raw" in fn and "binary" in v:
                    vals.append(int(v["binary"], 2))
    if not saw_trace:
        log("[trace] %s: trace run exit %s finished without a trace for %s" % (h.name, p.returncode, fail["prop"]))
        return None     # the trace run did not confirm the failure (timeout/limit): inconclusive, not "empty input"
    return vals


def run_all(prop_id, feature, harnesses, tier, jobs=12):
    names = [h.name for h in harnesses]
    built = build(feature, names)
    recs = []
    with ThreadPoolExecutor(max_workers=jobs) as ex:
        futs = [ex.submit(run_one, h, built, prop_id, tier) for h in harnesses]
        for f, h in zip(futs, harnesses):
            r = f.result()
            log("[%s] %-60s %-12s %6.1fs %s" % (prop_id, h.name, r["status"], r.get("wall_s", 0),
                                              "; ".join(r.get("notes") or []) or
                                              ", ".join(x["label"] for x in r.get("failures", []))))
            recs.append(r)
    return recs
