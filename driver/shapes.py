"""Shape vocabulary shared by the term-level properties (C01, C03, C10, C11, C12, C13)."""

# name -> (rust builder expression returning (OwnedTerm, RV), erlang type rank, family)
LEAVES = {
    "int": ("mk_int()", 0, "num"),
    "float": ("mk_float()", 0, "num"),
    "big1": ("mk_big::<1>()", 0, "num"),
    "big3": ("mk_big::<3>()", 0, "num"),
    "big8": ("mk_big::<8>()", 0, "num"),
    "big9": ("mk_big::<9>()", 0, "num"),
    "big8x": ("mk_big8_exact()", 0, "num"),
    "atom1": ("mk_atom::<1>()", 1, "atom"),
    "atom2": ("mk_atom::<2>()", 1, "atom"),
    "ref1": ("mk_ref::<1>()", 2, "ref"),
    "ref2": ("mk_ref::<2>()", 2, "ref"),
    "refl": ("mk_ref_local()", 2, "ref"),
    "extfun": ("mk_extfun()", 3, "fun"),
    "intfun": ("mk_intfun()", 3, "fun"),
    "port": ("mk_port()", 4, "port"),
    "portl": ("mk_port_local()", 4, "port"),
    "pid": ("mk_pid()", 5, "pid"),
    "pidl": ("mk_pid_local()", 5, "pid"),
    "tuple0": ("mk_tuple(vec![])", 6, "tuple"),
    "tuple1i": ("mk_tuple(vec![mk_int()])", 6, "tuple"),
    "nil": ("mk_nil()", 8, "list"),
    "list0": ("mk_list(vec![])", 8, "list"),
    "list1": ("mk_list(vec![mk_int()])", 8, "list"),
    "imp1": ("mk_improper(vec![mk_int()], mk_int())", 8, "list"),
    "bin0": ("mk_binary::<0>()", 9, "bits"),
    "bin1": ("mk_binary::<1>()", 9, "bits"),
    "bin2": ("mk_binary::<2>()", 9, "bits"),
    "str1": ("mk_string::<1>()", 9, "bits"),
    "bit1": ("mk_bitbin::<1>()", 9, "bits"),
    "bit2": ("mk_bitbin::<2>()", 9, "bits"),
}


def families():
    f = {}
    for n, (_e, _r, fam) in LEAVES.items():
        f.setdefault(fam, []).append(n)
    return f


def pairs_same_family():
    out = []
    for fam, ns in families().items():
        for i, a in enumerate(ns):
            for b in ns[i:]:
                out.append((a, b))
    return out


def pairs_cross_family():
    """one representative pair per pair of distinct families"""
    fams = list(families().items())
    out = []
    for i, (fa, na) in enumerate(fams):
        for fb, nb in fams[i + 1:]:
            out.append((na[0], nb[0]))
    return out
